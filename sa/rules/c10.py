"""C10 - task kernels are pure with respect to their arguments."""

from __future__ import annotations

import ast

from ..model import FuncInfo, body_walk, dotted, full_walk, idents_in, norm, unparse
from ..purity import AliasAnalysis
from ..report import RuleResult
from .common import callgraph, cfg_of, need, site

PROP = "C10"

EXPLANATION = (
    "Decides the structural core of C10: tasks are functions of their inputs. The kernel set K is derived from the code: "
    "every package function that escapes as a value (is referenced other than as a callee or decorator - that is how "
    "functions get into Task(...), partial(...), blockwise/map_blocks/reduction arguments and class attributes), plus "
    "its transitive package callees and nested closures. R10.1 a flow-sensitive may-alias analysis of each kernel over its "
    "statement CFG reports every write (subscript/attribute store, augmented assignment, in-place method, out=, "
    "np.copyto & co) whose target may alias a parameter, modulo a frozen, reasoned exemption list; R10.2 kernels declare "
    "no global/nonlocal, mutate no module-level container and call no unseeded RNG or clock; R10.3 the defensive copies "
    "that make 'views of the source' views of a private array are present (from_array, FromArray._layer single-block "
    "branch, FromArray._accept_slice eager slice, finalize). Order-independence of user functions and thread-safety of "
    "third-party stores are not decided."
)
ASSUMPTIONS = [
    "NumPy functions not listed as view-producing return fresh arrays; listed view producers (asarray, reshape, transpose, basic subscripts, ...) return aliases",
    "lambda kernels contain no statements and are not analysed beyond their calls",
    "user-supplied functions are outside the package and not analysed",
]
TRUSTED = ["CPython ast", "sa.cfg", "sa.purity (may-alias worklist analysis)", "sa.callgraph escape edges"]

NONDET_CALLS = {"time.time", "time.perf_counter", "time.monotonic", "datetime.now", "datetime.datetime.now", "os.getpid", "os.urandom", "uuid.uuid4", "uuid.uuid1", "random.random", "random.randint", "random.choice", "random.shuffle"}


FRAMEWORK_SINKS = {
    "Task", "partial", "blockwise", "elemwise", "map_blocks", "map_overlap", "reduction", "cumreduction", "arg_reduction",
    "apply_gufunc", "from_map", "_tree_reduce", "apply_along_axis", "apply_over_axes", "compose", "curry", "_map_overlap_direct",
    "map_blocks_multi_output", "Alias", "DataNode", "List", "Dict",
}
KERNEL_KEYWORDS = {"chunk", "combine", "aggregate", "func", "binop", "preop", "reducer", "reduction", "getitem", "function", "chunk_func", "op"}


def kernel_set(ctx):
    """Functions of the package that can end up inside a task: see EXPLANATION."""

    def build():
        repo = ctx.repo
        cg = callgraph(ctx)
        expr_names = {c.name for c in repo.expr_classes()}
        K = {}
        why = {}
        defs_cache = {}

        def add(res, reason):
            if res and res[0] == "func" and res[1].module.is_unit:
                f = res[1]
                if f.cls is not None and f.kind not in ("classmethod", "staticmethod"):
                    return
                if f.fq not in K:
                    K[f.fq] = f
                    why[f.fq] = reason

        def func_values(node, m, fi):
            """function-valued sub-expressions of an argument (through partial(...)/staticmethod(...) wrappers, tuples, lists)."""
            out = []
            stack = [node]
            expanded = set()
            while stack:
                n = stack.pop()
                if isinstance(n, ast.Name) and fi is not None and n.id in fi.local_names and n.id not in expanded:
                    # a local alias (``func = _custom_quantile`` ... ``map_blocks(func, ...)``): follow its definitions
                    expanded.add(n.id)
                    from ..dataflow import Defs

                    d = defs_cache.setdefault(fi.fq, Defs(fi.node))
                    stack.extend(d.defs.get(n.id, []))
                elif isinstance(n, (ast.Name, ast.Attribute)):
                    out.append(n)
                elif isinstance(n, ast.Call) and (dotted(n.func) or "").rsplit(".", 1)[-1] in ("partial", "staticmethod", "classmethod", "curry", "compose"):
                    stack.extend(n.args)
                    stack.extend(k.value for k in n.keywords)
                elif isinstance(n, (ast.Tuple, ast.List)):
                    stack.extend(n.elts)
                elif isinstance(n, ast.Dict):
                    stack.extend(v for v in n.values if v is not None)
                elif isinstance(n, ast.Starred):
                    stack.append(n.value)
                elif isinstance(n, ast.IfExp):
                    stack.extend([n.body, n.orelse])
            return out

        for m in repo.units:
            def scan(fi, node):
                for n in ast.walk(node):
                    if isinstance(n, ast.Call):
                        tail = (dotted(n.func) or "").rsplit(".", 1)[-1]
                        is_sink = tail in FRAMEWORK_SINKS or tail in expr_names or (isinstance(n.func, ast.Call) and unparse(n.func.func) == "type")
                        for a in n.args:
                            if is_sink:
                                for v in func_values(a, m, fi):
                                    add(repo.resolve_expr(v, m, fi), f"argument of {tail}(...) in {m.relpath}")
                        for k in n.keywords:
                            if is_sink or (k.arg in KERNEL_KEYWORDS):
                                for v in func_values(k.value, m, fi):
                                    add(repo.resolve_expr(v, m, fi), f"{k.arg}= of {tail}(...) in {m.relpath}")
                    elif isinstance(n, ast.Tuple) and isinstance(n.ctx, ast.Load) and n.elts and fi is not None and fi.name in ("_layer", "_task", "_lower", "__dask_graph__"):
                        add(repo.resolve_expr(n.elts[0], m, fi) if isinstance(n.elts[0], (ast.Name, ast.Attribute)) else None, f"head of a task tuple in {fi.qualname}")

            for f in m.functions.values():
                if f.parent is None:
                    scan(f, f.node)
                    # inside methods of expression classes every function value that is not being
                    # called is on its way into a task (``op = _enforce_dtype`` ... ``return op, ...``)
                    if f.cls is not None and f.cls.name in expr_names:
                        callee = {id(n.func) for n in ast.walk(f.node) if isinstance(n, ast.Call)}
                        for n in ast.walk(f.node):
                            if isinstance(n, (ast.Name, ast.Attribute)) and isinstance(n.ctx, ast.Load) and id(n) not in callee:
                                add(repo.resolve_expr(n, m, f), f"function value in {f.qualname}")
            for c in m.classes.values():
                is_expr = c.name in expr_names
                for s in c.node.body:
                    if isinstance(s, (ast.FunctionDef, ast.AsyncFunctionDef)):
                        continue
                    scan(None, s)
                    if is_expr and isinstance(s, (ast.Assign, ast.AnnAssign)) and s.value is not None:
                        for v in func_values(s.value, m, None):
                            add(repo.resolve_expr(v, m, None), f"class attribute of {c.name}")
            for stmt in m.tree.body:
                if not isinstance(stmt, (ast.FunctionDef, ast.AsyncFunctionDef, ast.ClassDef)):
                    scan(None, stmt)
        # the design's named kernels on expression classes
        for c in repo.expr_classes():
            for name, f in c.methods.items():
                if name.startswith("sliding_window_") and f.kind in ("classmethod", "staticmethod"):
                    K.setdefault(f.fq, f)
                    why.setdefault(f.fq, "sliding_window_* kernel classmethod")
        # picklable callable objects (classes defining both __call__ and __reduce__): their instances wrap block
        # functions and are shipped inside tasks, so their __call__ runs on blocks like any other kernel
        for c in repo.all_classes():
            if "__call__" in c.methods and "__reduce__" in c.methods and c.name not in expr_names:
                f = c.methods["__call__"]
                K.setdefault(f.fq, f)
                why.setdefault(f.fq, f"__call__ of the picklable callable {c.name} (instances are placed in tasks)")
        # transitive package callees (exact *call* edges) and nested closures
        work = list(K.values())
        while work:
            f = work.pop()
            for e in cg.callees(f.fq, kinds=("call",), exact_only=True):
                t = e.target
                if not t.module.is_unit or t.fq in K:
                    continue
                if t.cls is not None and t.kind not in ("classmethod", "staticmethod") and t.parent is None:
                    continue
                K[t.fq] = t
                why[t.fq] = f"called by kernel {f.qualname}"
                work.append(t)
            for q, g in f.module.functions.items():
                if g.parent is f and g.fq not in K:
                    K[g.fq] = g
                    why[g.fq] = f"closure of kernel {f.qualname}"
                    work.append(g)
        ctx.cached("kernel_why", lambda: why)
        return K

    return ctx.cached("kernel_set", build)


def _summaries(ctx, f: FuncInfo, depth=0):
    """callable(call) -> indexes of arguments the callee's result may alias (package callees only)."""
    repo = ctx.repo
    memo = ctx.cached("alias_summaries", dict)

    def summ(call):
        fn = call.func
        if not isinstance(fn, (ast.Name, ast.Attribute)):
            return None
        res = repo.resolve_expr(fn, f.module, f)
        if not res or res[0] != "func" or not res[1].module.is_unit:
            return None
        t = res[1]
        if t.fq in memo:
            return memo[t.fq]
        if depth >= 3:
            return None
        memo[t.fq] = set()  # recursion guard
        try:
            aa = AliasAnalysis(t.node, summaries=_summaries(ctx, t, depth + 1))
        except RecursionError:
            return None
        params = aa.params
        out = set()
        for tok in aa.returns_alias:
            base = tok.split("[")[0]
            if base in params:
                out.add(params.index(base) - (1 if params and params[0] in ("self", "cls") else 0))
                out.add(base)
        memo[t.fq] = out
        return out

    return summ


def kernel_write_findings(ctx, f: FuncInfo):
    """[(node, reason)] for writes through a parameter alias in kernel ``f``."""
    aa = AliasAnalysis(f.node, summaries=_summaries(ctx, f))
    seen = set()
    out = []
    for w in aa.writes:
        key = (getattr(w.stmt, "lineno", 0), w.how)
        if key in seen:
            continue
        seen.add(key)
        toks = sorted(w.targets)
        out.append((w.stmt, f"{w.how} writes through an alias of parameter(s) {toks} of {f.qualname}", toks))
    return [(n, r) for n, r, _ in out], out


# (function construct, parameter token) -> reason
R101_EXEMPT = {
    ("dask_array/io/_store.py::load_store_chunk", "out"): "`out` is the store target: writing the block into out[index] is the purpose of the kernel (region/lock discipline is checked under C25)",
    ("dask_array/io/_store.py::load_chunk", "out"): "forwards the store target to load_store_chunk with x=None (nothing is written: `if x is not None` guard, checked under C25)",
    ("dask_array/_chunk.py::coarsen", "axes"): "fills in missing axis keys of the coarsening spec with the neutral factor 1 - idempotent normalisation of a small dict of ints, never array data",
    ("dask_array/slicing/_utils.py::setitem", "indices"): "normalises the per-task index list, which is materialised afresh for every task execution from List(*task_block_indices); array data is copied before the write (see the x.copy() just below)",
    ("dask_array/reductions/_reduction.py::Mean.sliding_window_finalize", "out"): "receives the accumulator its only caller (sliding_window_reduce_block) has just allocated with np.array(..., copy=True); callers are checked to pass a fresh buffer (R10.1b)",
}
CALLER_FRESH = {"sliding_window_finalize": 0}  # kernel name -> index of the argument every caller must pass fresh


def r10_1(ctx):
    rr = RuleResult("R10.1", "PURE", "no task kernel writes through an alias of one of its arguments", min_instances=120)
    K = kernel_set(ctx)
    why = ctx.cached("kernel_why", dict)
    for fq in sorted(K):
        f = K[fq]
        try:
            _, hits = kernel_write_findings(ctx, f)
        except RecursionError:
            hits = []
        rr.inst(site(f), writes=len(hits), kernel_because=why.get(fq, ""))
        for node, reason, toks in hits:
            exempt = [t for t in toks if (f.construct, t) in R101_EXEMPT]
            if exempt and len(exempt) == len(toks):
                rr.exempt(site(f, node), "; ".join(R101_EXEMPT[(f.construct, t)] for t in exempt))
                continue
            ctx.finding(rr, site(f, node), reason + ": another task (or the user's source array) holding the same buffer would observe the mutation", func=f, node=node)
    # R10.1b: kernels exempted because "the caller passes a fresh buffer": check the callers
    for name, argi in CALLER_FRESH.items():
        ncalls = 0
        for fq, f in sorted(K.items()):
            calls = [n for n in full_walk(f.node) if isinstance(n, ast.Call) and isinstance(n.func, ast.Attribute) and n.func.attr == name]
            if not calls:
                continue
            aa = AliasAnalysis(f.node, summaries=_summaries(ctx, f))
            from ..cfg import build_index

            idx = build_index(aa.cfg)
            for c in calls:
                ncalls += 1
                stmt = idx.get(id(c))
                st = aa.IN.get(stmt, {}) if stmt is not None else {}
                al = aa.alias(c.args[argi], st) if len(c.args) > argi else frozenset()
                cst = site(f, c)
                rr.inst(cst, passes=unparse(c.args[argi]) if len(c.args) > argi else None, may_alias=sorted(al))
                if al:
                    ctx.finding(rr, cst, f"{name} mutates its argument in place, and this caller passes a value that may alias its own parameter(s) {sorted(al)}", func=f, node=c)
        need(ncalls >= 1, f"no call site of {name} found among kernels")
    return rr


def r10_2(ctx):
    rr = RuleResult("R10.2", "PURE", "kernels declare no global/nonlocal, mutate no module-level container and call no clock / unseeded RNG", min_instances=120)
    K = kernel_set(ctx)
    repo = ctx.repo
    for fq in sorted(K):
        f = K[fq]
        rr.inst(site(f))
        m = f.module
        locals_ = set()
        g = f
        while g is not None:
            locals_ |= set(g.local_names)
            g = g.parent
        for n in body_walk(f.node):
            if isinstance(n, ast.Global):
                ctx.finding(rr, site(f, n), f"kernel declares {norm(n)}: task results would depend on execution history/schedule", func=f, node=n)
            base = None
            how = None
            if isinstance(n, ast.Subscript) and isinstance(n.ctx, (ast.Store, ast.Del)):
                base, how = n.value, "subscript store"
            elif isinstance(n, ast.Call) and isinstance(n.func, ast.Attribute) and n.func.attr in ("append", "extend", "insert", "update", "setdefault", "pop", "clear", "add", "remove", "discard", "popitem"):
                base, how = n.func.value, f".{n.func.attr}()"
            elif isinstance(n, ast.AugAssign) and isinstance(n.target, ast.Name):
                base, how = n.target, "augmented assignment"
            if base is not None:
                root = base
                while isinstance(root, (ast.Subscript, ast.Attribute)):
                    root = root.value
                if isinstance(root, ast.Name) and root.id not in locals_ and root.id in m.assigns:
                    ctx.finding(rr, site(f, n), f"kernel mutates module-level state {root.id!r} ({how}): results depend on which tasks ran before", func=f, node=n)
            if isinstance(n, ast.Call):
                fn = dotted(n.func) or ""
                parts = fn.split(".")
                bad = fn in NONDET_CALLS or (len(parts) >= 3 and parts[-2] == "random" and parts[0] in ("np", "numpy") and parts[-1] not in ("default_rng", "Generator", "RandomState", "SeedSequence", "PCG64", "MT19937", "Philox", "SFC64", "BitGenerator"))
                if bad and not (parts[-1] in ("default_rng", "RandomState") and n.args):
                    ctx.finding(rr, site(f, n), f"kernel calls {fn}(): nondeterministic ambient state inside a task", func=f, node=n)
    return rr


def r10_3(ctx):
    rr = RuleResult("R10.3", "GUARD", "defensive copies: from_array detaches from the caller's buffer; whole-array graph literals and eager slices are copies; finalize returns a copy of a single chunk", min_instances=4)
    repo = ctx.repo
    # (a) from_array
    fa = repo.mod("dask_array.core._conversion").func("from_array")
    cfg = cfg_of(ctx, fa)
    cons = [s for s in cfg.stmts() if not isinstance(s, (ast.If, ast.For, ast.While, ast.Try, ast.With)) and any(isinstance(n, ast.Call) and dotted(n.func) == "FromArray" for n in ast.walk(s))]
    need(cons, "from_array no longer constructs FromArray")
    src = fa.params[0]

    def is_copy(n):
        return isinstance(n, ast.Assign) and len(n.targets) == 1 and unparse(n.targets[0]) == src and unparse(n.value) in (f"{src}.copy()", f"np.array({src})", f"np.array({src}, copy=True)", f"np.copy({src})")

    def no_copy_possible(a, lbl, b):
        if isinstance(a, ast.If) and lbl is False:
            ids = idents_in(a.test)
            return "copy" in ids and "hasattr" in ids and src in ids
        return False

    for s in cons:
        c = site(fa, s)[:160]
        p = cfg.path_avoiding(s, blocked=is_copy, blocked_edge=no_copy_possible)
        rr.inst(c, must_pass="x = x.copy() (or the object has no copy method)")
        if p is not None:
            ctx.finding(rr, c, "a path reaches FromArray(x, ...) holding the caller's own buffer (no x.copy()): computing or later user-side writes alias user memory", func=fa, node=s,
                        path=[f"line {getattr(x, 'lineno', '?')}: {norm(x)}" for x in p if isinstance(x, ast.AST)][-6:])
    # (b) FromArray._layer: whole-array literal must be a copy
    fcls = repo.find_class("FromArray")
    lay = fcls.methods.get("_layer")
    need(lay is not None, "FromArray._layer")
    from ..dataflow import Defs as _Defs

    ldefs = _Defs(lay.node)

    def kinds(e, depth=0):
        """{'copy', 'source', 'other'}: is the expression a copy of the source, the source (or a view of it), or neither."""
        if isinstance(e, ast.IfExp):
            return kinds(e.body, depth) | kinds(e.orelse, depth)
        if isinstance(e, ast.Call) and isinstance(e.func, ast.Attribute) and e.func.attr == "copy" and "source" in kinds(e.func.value, depth):
            return {"copy"}
        if isinstance(e, ast.Attribute) and unparse(e) == "self.array":
            return {"source"}
        if isinstance(e, ast.Subscript):
            return {"source"} if "source" in kinds(e.value, depth) else {"other"}
        if isinstance(e, ast.Name) and depth < 3:
            out = set()
            for v in ldefs.defs.get(e.id, []):
                out |= kinds(v, depth + 1)
            return out or {"other"}
        return {"other"}

    n_copy = 0
    for n in body_walk(lay.node):
        if isinstance(n, ast.Dict):
            for k_, v in zip(n.keys, n.values):
                if v is None or isinstance(v, ast.Tuple):
                    continue
                ks = kinds(v)
                if ks == {"other"}:
                    continue
                cst = site(lay, v)
                rr.inst(cst, literal=unparse(v)[:80], kinds=sorted(ks))
                if "source" in ks:
                    # ``{arr_key: self.array}`` for non-NumPy sources is a reference to the store object, not data
                    key_txt = unparse(k_) if k_ is not None else ""
                    if "arr_key" in key_txt:
                        rr.exempt(cst, "the source *object* (h5py/zarr-like) placed in the graph once; it is read through getter, never handed out as a block")
                        continue
                    ctx.finding(rr, cst, "the source array itself is placed in the graph as a block without .copy(): compute() would return (and tasks could mutate) the stored source buffer", func=lay, node=v)
                else:
                    n_copy += 1
    if n_copy == 0:
        rr.inst(lay.construct + "::single-block literal", present=False)
        ctx.finding(rr, lay.construct + "::single-block literal", "FromArray._layer no longer stores a .copy() of a single-block NumPy source as the block literal", func=lay)
    # (c) FromArray._accept_slice eager slice
    acc = fcls.methods.get("_accept_slice")
    need(acc is not None, "FromArray._accept_slice")
    eager = [n for n in body_walk(acc.node) if isinstance(n, ast.Assign) and any(isinstance(x, ast.Subscript) and unparse(x.value) in ("source", "self.array") for x in ast.walk(n.value))]
    for n in eager:
        cst = site(acc, n)
        rr.inst(cst, value=unparse(n.value))
        if not (isinstance(n.value, ast.Call) and isinstance(n.value.func, ast.Attribute) and n.value.func.attr == "copy"):
            ctx.finding(rr, cst, "eager NumPy slice of the source is kept as a view (no .copy()): the new node shares the parent source buffer", func=acc, node=n)
    need(eager, "FromArray._accept_slice no longer slices NumPy sources eagerly")
    # (d) finalize
    fin = repo.mod("dask_array._core_utils").func("finalize")
    rets = [n for n in body_walk(fin.node) if isinstance(n, ast.Return)]
    copies = [r for r in rets if unparse(r.value) == "results.copy()"]
    rr.inst(site(fin), returns=[norm(r) for r in rets])
    if not copies:
        ctx.finding(rr, site(fin), "finalize no longer returns results.copy() for a single chunk: compute() hands out a buffer stored in the graph", func=fin)
    else:
        # a bare ``return results`` is only allowed in the AttributeError fallback
        for r in rets:
            if unparse(r.value) == "results":
                enc = cfg_of(ctx, fin).parent.get(r)
                if not (enc and enc[1] == "handler"):
                    ctx.finding(rr, site(fin, r), "finalize returns the graph-held single chunk without copying outside the AttributeError fallback", func=fin, node=r)
    return rr


RULES = [r10_1, r10_2, r10_3]

LEVEL_TEXT = (
    "Static effect analysis of every function that can end up inside a task (kernel set derived from the task-construction "
    "sinks of the code, ~140 functions): flow-sensitive may-alias analysis over each kernel's CFG reporting writes through "
    "argument aliases (with caller-freshness checks for the one in-place finalizer), an ambient-state scan (global, "
    "module-level containers, clocks/unseeded RNG), and guard/must-pass checks of the defensive copies that detach the "
    "graph from user buffers. This is the necessary condition for schedule independence visible in code shape ('tasks "
    "are functions of their inputs, inputs are never mutated'); behaviour of user functions and third-party stores is not decided."
)
LEVEL_NOTE = (
    "Trusted: CPython ast, the engine's CFG and alias lattice; NumPy view/fresh function tables in sa/purity.py (unlisted "
    "NumPy functions are assumed to return fresh arrays). Exemptions are frozen per (function, parameter) with a reason."
)
TECHNIQUE = "static analysis: flow-sensitive may-alias/effect analysis over per-function CFGs, kernel set from escape/sink analysis (ast)"

import numpy as np, random, warnings, sys, itertools
warnings.simplefilter("ignore")
import dask_array as da
seed=int(sys.argv[1]) if len(sys.argv)>1 else 0
random.seed(seed); bad=0
def rch(n): return random.choice([1,2,3,max(n,1)])
def nodes(x,a):
    """single-op nodes over x"""
    n,m=a.shape
    yield 'T', x.T, a.T
    yield 'reshape3', x.reshape((n,1,m)), a.reshape((n,1,m))
    yield 'reshape_flat', x.reshape(-1), a.reshape(-1)
    yield 'reshape_split', (x.reshape((n,2,m//2)) if m%2==0 else x), (a.reshape((n,2,m//2)) if m%2==0 else a)
    yield 'expand', da.expand_dims(x,1), np.expand_dims(a,1)
    yield 'bcast', da.broadcast_to(x,(2,n,m)), np.broadcast_to(a,(2,n,m))
    yield 'bcast1', da.broadcast_to(x[:1],(n,m)), np.broadcast_to(a[:1],(n,m))
    yield 'concat', da.concatenate([x,x*2],axis=0), np.concatenate([a,a*2],axis=0)
    yield 'stack', da.stack([x,x*2],axis=1), np.stack([a,a*2],axis=1)
    yield 'sum0', x.sum(axis=0), a.sum(axis=0)
    yield 'sumk', x.sum(axis=1,keepdims=True), a.sum(axis=1,keepdims=True)
    yield 'cumsum', x.cumsum(axis=1), a.cumsum(axis=1)
    yield 'take', da.take(x,[1,0,1],axis=0), np.take(a,[1,0,1],axis=0)
    yield 'rechunk', x.rechunk((1,m)), a
    yield 'elem', x+x.T.T*2, a*3
    yield 'bc_elem', x+x[0], a+a[0]
    yield 'where', da.where(x>2,x,0), np.where(a>2,a,0)
    yield 'squeeze', x[:1].squeeze(axis=0), a[:1].squeeze(axis=0)
    yield 'pad', da.pad(x,1), np.pad(a,1)
    yield 'repeat', da.repeat(x,2,axis=0), np.repeat(a,2,axis=0)
    yield 'tile', da.tile(x,(1,2)), np.tile(a,(1,2))
    yield 'flip', da.flip(x,1), np.flip(a,1)
    yield 'roll', da.roll(x,1,axis=0), np.roll(a,1,axis=0)
    yield 'mapb', x.map_blocks(lambda b:b*2,dtype=float), a*2
    yield 'ones', da.ones((n,m),chunks=x.chunks)*x, a
    yield 'arange', da.arange(m,chunks=rch(m))+x, np.arange(m)+a
    yield 'linspace', da.linspace(0,1,m,chunks=rch(m))*x, np.linspace(0,1,m)*a
    yield 'astype', x.astype('f4'), a.astype('f4')
    yield 'diag', da.diagonal(x), np.diagonal(a)
    yield 'swv', da.sliding_window_view(x,2,axis=1), np.lib.stride_tricks.sliding_window_view(a,2,axis=1)
    yield 'matmul', x@x.T, a@a.T
    yield 'argmax', x.argmax(axis=1), a.argmax(axis=1)
    yield 'topk', da.topk(x,2,axis=1), -np.sort(-a,axis=1)[:, :2]
    yield 'setitem', (lambda d: (d.__setitem__((slice(None),0),-1.), d)[1])(x.copy()), (lambda w: (w.__setitem__((slice(None),0),-1.), w)[1])(a.copy())
    yield 'vindex', x.vindex[[0,1,0],[1,0,1]], a[[0,1,0],[1,0,1]]
    yield 'blocks', x.blocks[0], a[:x.chunks[0][0]]
def degenerate_indices(shape):
    opts=[]
    for s in shape:
        o=[slice(None), 0, s-1, -1, slice(0,0), slice(0,1), slice(s-1,s), slice(s,s), slice(1,1), slice(None,None,-1), slice(-1,None)]
        opts.append(o)
    return opts
for p in range(int(sys.argv[2]) if len(sys.argv)>2 else 30):
    n,m=random.choice([(4,6),(3,4),(2,2),(5,2)])
    a=(np.arange(float(n*m)).reshape(n,m)*7)%11-3
    x=da.from_array(a,chunks=(rch(n),rch(m)))
    for name,r,w in nodes(x,a):
        w=np.asarray(w)
        opts=degenerate_indices(w.shape)
        for _ in range(12):
            idx=tuple(random.choice(o) for o in opts)
            if random.random()<0.3: idx=idx[:1]
            try:
                want=w[idx]
            except Exception: continue
            try:
                got=r[idx]
                g=np.asarray(got.compute())
                if g.shape!=want.shape or not np.allclose(g,want): bad+=1; print('MISMATCH',seed,name,x.chunks,idx)
                # second op on degenerate result
                if want.ndim:
                    g2=np.asarray((got+1).sum(axis=0).compute()); 
                    if not np.allclose(g2,(want+1).sum(axis=0)): bad+=1; print('MISMATCH2',seed,name,x.chunks,idx)
            except Exception as e:
                bad+=1; print('RAISE',seed,name,x.chunks,idx,type(e).__name__,str(e)[:90])
print('bad',bad)

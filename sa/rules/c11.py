"""C11 - in-place operations swap an immutable expression, nothing else."""

from __future__ import annotations

import ast

from ..dataflow import Defs, roots
from ..model import FuncInfo, body_walk, const_value, dotted, full_walk, idents_in, norm, unparse
from ..report import RuleResult
from .common import callgraph, cfg_of, enclosing_function, need, site

PROP = "C11"

EXPLANATION = (
    "Decides the structural mechanism behind C11: an in-place operation on a collection only swaps the pointer to an "
    "immutable expression, so nothing that was derived earlier can observe it. R11.1 the attribute Array._expr is stored "
    "only in Array.__init__/_replace_expr (and never through __dict__/setattr elsewhere); R11.2 every derived cache of "
    "Array (cached_property members and __dict__ keys) is dropped by _replace_expr; R11.3 every in-place operation calls "
    "_replace_expr with a newly constructed expression / another collection's expression; R11.4 the assignment kernel "
    "copies before writing (purity analysis shared with C10); R11.5 Array.copy/__deepcopy__ build a distinct Array over "
    "the same expression; R11.6 from_array detaches from the caller's buffer; R11.7 no live collection handle is captured "
    "by reference inside a container operand of an expression (Expr.__new__ converts only top-level operands) - every "
    "construction site feeding a container-valued parameter from a function parameter passes through "
    "snapshot_collections or is an enumerated, reasoned exemption; R11.8 the tasks built for the assignment path call their "
    "kernels with an argument list the kernel can bind (writer/reader agreement, sa/rules/taskarity.py). Values (that x computes the NumPy result of the "
    "assignment) are not decided."
)
ASSUMPTIONS = [
    "dask's Expr.__new__ converts top-level operands that are collections into expressions and evaluates _name (re-checked from source in thorough mode)",
    "user objects other than dask_array.Array that are mutable (NumPy arrays in kwargs, custom stores) are the user's responsibility",
]
TRUSTED = ["CPython ast", "sa.model class/MRO resolver", "sa.dataflow flow-insensitive def-use slices", "sa.callgraph construction sites"]

# -- R11.7 tables ---------------------------------------------------------------------------
SLOT_PARAMS = {"kwargs", "_user_kwargs", "args", "index", "indexer", "values", "dict_indexes", "block_specs", "_kwargs"}
SANITIZERS = frozenset({"snapshot_collections"})
# (function construct, "Class.param") -> reason.  Confirmed by reading; one line each.
R117_EXEMPT = {
    ("dask_array/io/_from_map.py::from_map", "FromMap.values"): "opaque per-block Python values handed to func unchanged; no graph is built from them and dask collections are not unpacked on this path",
    ("dask_array/io/_from_map.py::from_map", "FromMap.kwargs"): "same: broadcast keyword values are opaque to the graph (no unpack_collections on the FromMap path)",
    ("dask_array/io/_from_map.py::_merge_from_maps", "FromMap.values"): "re-threads values of existing FromMap nodes (module-level helper called from rewrite hooks)",
    ("dask_array/io/_from_map.py::_merge_from_maps", "FromMap.kwargs"): "re-threads kwargs of existing FromMap nodes",
    ("dask_array/random/_utils.py::_wrap_func", "Random.args"): "array-valued distribution parameters are not functional on the generic Random node (they fail at compute with a broadcast error, DESIGN.md section 7), scalars carry no handle",
    ("dask_array/random/_utils.py::_wrap_func", "Random.kwargs"): "same as Random.args",
    ("dask_array/routines/_coarsen.py::coarsen", "Coarsen.kwargs"): "keyword arguments of the NumPy reduction, bound into functools.partial; a dask array there is materialised by NumPy inside the task, never merged into the graph (witness: value unaffected by later in-place edits)",
    ("dask_array/_shuffle.py::_shuffle", "Shuffle.indexer"): "list of lists of Python ints validated by _validate_indexer before construction",
    ("dask_array/slicing/_basic.py::slice_slices_and_integers", "SliceSlicesIntegers.index"): "ints and slices only: dask-array indices are routed to slice_with_*_dask_array in Array.__getitem__ and list indices to take() before this point",
    ("dask_array/slicing/_basic.py::take", "TakeUnknownOneChunk.index"): "take() is reached with NumPy/list indices only (guarded by is_dask_collection routing in Array.__getitem__)",
    ("dask_array/slicing/_blocks.py::blocks_getitem", "Blocks.index"): "normalized block index of ints/slices/lists (normalize_index over numblocks); dask arrays raise in BlockView.__getitem__",
    ("dask_array/slicing/_vindex.py::_vindex_array", "VIndexArray.dict_indexes"): "NumPy index arrays: Array._vindex raises IndexError for dask collections before _vindex is reached",
    ("dask_array/_map_blocks.py::map_blocks_multi_output", "MapBlocksOutput.block_specs"): "dict of already-lowered expressions and literals built by the caller from .expr.lower_completely() results",
    ("dask_array/_overlap.py::sliding_window_view", "SlidingWindowView.kwargs"): "kwargs built locally from validated ints (window_shape/axis), no user container",
}


def _array_cls(repo):
    return repo.mod("dask_array._collection").cls("Array")


def r11_1(ctx):
    rr = RuleResult("R11.1", "WHO", "Array._expr is stored only in Array.__init__ and Array._replace_expr", min_instances=2)
    repo = ctx.repo
    arr = _array_cls(repo)
    allowed = {"Array.__init__", "Array._replace_expr"}
    array_like = {c.fq for c in repo.subclasses(arr)}
    for m in repo.units:
        for f in m.functions.values():
            for n in body_walk(f.node):
                hit = None
                if isinstance(n, ast.Attribute) and n.attr == "_expr" and isinstance(n.ctx, (ast.Store, ast.Del)):
                    recv = n.value
                    if isinstance(recv, ast.Name) and recv.id == "self":
                        g = f
                        while g is not None and g.cls is None:
                            g = g.parent
                        owner = g.cls if g else None
                        if owner is None or owner.fq not in array_like:
                            continue  # some other class's private attribute
                    hit = n
                elif isinstance(n, ast.Call):
                    fn = dotted(n.func) or ""
                    if fn.endswith("setattr") and len(n.args) >= 2 and const_value(n.args[1]) == "_expr":
                        hit = n
                elif isinstance(n, ast.Subscript) and isinstance(n.ctx, (ast.Store, ast.Del)) and const_value(n.slice) == "_expr":
                    if "__dict__" in idents_in(n.value):
                        hit = n
                if hit is None:
                    continue
                c = site(f, hit)
                rr.inst(c, where=f.qualname)
                if not (f.module.name == "dask_array._collection" and f.qualname in allowed):
                    ctx.finding(rr, c, "a collection's expression pointer is written outside Array.__init__/_replace_expr (caches would not be invalidated)", func=f, node=hit)
    return rr


def _array_caches(repo):
    """Derived caches that live on a collection: cached_property members of Array, and every
    ``<obj>.__dict__["k"] = ...`` store anywhere in the package whose receiver is not the
    ``self`` of some other class (collections are the only objects the package pokes this way)."""
    arr = _array_cls(repo)
    array_like = {c.fq for c in repo.subclasses(arr)}
    caches = {}
    for name, f in arr.methods.items():
        if f.kind == "cached_property":
            caches[name] = f"cached_property {name}"
    for m in repo.units:
        for f in m.functions.values():
            g = f
            while g is not None and g.cls is None:
                g = g.parent
            owner = g.cls if g else None
            for n in body_walk(f.node):
                if isinstance(n, ast.Subscript) and isinstance(n.ctx, ast.Store) and isinstance(n.value, ast.Attribute) and n.value.attr == "__dict__":
                    recv = unparse(n.value.value)
                    if recv == "self" and (owner is None or owner.fq not in array_like):
                        continue
                    k = const_value(n.slice)
                    if isinstance(k, str):
                        caches.setdefault(k, f"{recv}.__dict__[{k!r}] written in {f.construct}")
    return caches


def r11_2(ctx):
    rr = RuleResult("R11.2", "COVER", "every derived cache of Array is invalidated by _replace_expr", min_instances=3)
    repo = ctx.repo
    arr = _array_cls(repo)
    rep = arr.methods.get("_replace_expr")
    need(rep is not None, "Array._replace_expr")
    popped = set()
    for n in full_walk(rep.node):
        if isinstance(n, ast.Call) and isinstance(n.func, ast.Attribute) and n.func.attr in ("pop", "__delitem__"):
            for a in n.args[:1]:
                v = const_value(a)
                if isinstance(v, str):
                    popped.add(v)
                elif isinstance(a, ast.Name):
                    # ``for cached in (..literals..): self.__dict__.pop(cached, None)``
                    for loop in ast.walk(rep.node):
                        if isinstance(loop, ast.For) and isinstance(loop.target, ast.Name) and loop.target.id == a.id:
                            vals = const_value(loop.iter)
                            if isinstance(vals, (tuple, list, set)):
                                popped.update(v for v in vals if isinstance(v, str))
        if isinstance(n, ast.Delete):
            for t in n.targets:
                if isinstance(t, ast.Subscript):
                    v = const_value(t.slice)
                    if isinstance(v, str):
                        popped.add(v)
    exempt = {"_optimized": "flag that only short-circuits optimize(); the graph is always rebuilt from _lowered_expr, which is dropped"}
    for k, why in sorted(_array_caches(repo).items()):
        c = f"{arr.construct}::cache {k}"
        rr.inst(c, origin=why, popped=k in popped)
        if k in popped:
            continue
        if k in exempt:
            rr.exempt(c, exempt[k])
            continue
        ctx.finding(rr, c, f"derived cache {k!r} survives _replace_expr: stale name/keys/graph after an in-place operation", func=rep)
    return rr


def r11_3(ctx):
    rr = RuleResult(
        "R11.3", "COVER",
        "every _replace_expr call passes a newly constructed expression or the expression of a different collection",
        min_instances=5,
    )
    repo = ctx.repo
    expr_names = {c.name for c in repo.expr_classes()}
    for m in repo.units:
        for f in m.functions.values():
            for n in body_walk(f.node):
                if not (isinstance(n, ast.Call) and isinstance(n.func, ast.Attribute) and n.func.attr == "_replace_expr"):
                    continue
                recv = unparse(n.func.value)
                arg = n.args[0] if n.args else None
                c = site(f, n)
                ok, why = False, "no argument"
                if isinstance(arg, ast.Call):
                    tail = (dotted(arg.func) or "").rsplit(".", 1)[-1]
                    res = repo.resolve_expr(arg.func, m, f) if isinstance(arg.func, (ast.Name, ast.Attribute)) else None
                    if (res and res[0] == "class" and res[1].name in expr_names) or tail in expr_names:
                        ok, why = True, f"constructs {tail}"
                        # the old expression must be an operand, never mutated in place
                    else:
                        why = f"argument is a call to {tail}, not an expression constructor"
                elif isinstance(arg, ast.Attribute) and arg.attr in ("expr", "_expr"):
                    src = unparse(arg.value)
                    if src != recv:
                        ok, why = True, f"expression of another collection ({src})"
                    else:
                        why = "re-installs the receiver's own expression"
                rr.inst(c, receiver=recv, argument=unparse(arg) if arg is not None else None, verdict=why)
                if not ok:
                    ctx.finding(rr, c, f"_replace_expr argument is not a freshly built expression: {why}", func=f, node=n)
    # the in-place public operations must all go through it
    arr = _array_cls(repo)
    for meth in ("__setitem__", "compute_chunk_sizes", "_chunks@setter"):
        f = arr.methods.get(meth)
        need(f is not None, f"Array.{meth}")
        calls = [n for n in body_walk(f.node) if isinstance(n, ast.Call) and isinstance(n.func, ast.Attribute) and n.func.attr == "_replace_expr"]
        rr.inst(f"{f.construct}::uses _replace_expr", count=len(calls))
        if not calls:
            ctx.finding(rr, f"{f.construct}::uses _replace_expr", "in-place operation no longer goes through _replace_expr", func=f)
    ho = repo.mod("dask_array._core_utils").func("handle_out")
    calls = [n for n in body_walk(ho.node) if isinstance(n, ast.Call) and isinstance(n.func, ast.Attribute) and n.func.attr == "_replace_expr"]
    rr.inst(f"{ho.construct}::uses _replace_expr", count=len(calls))
    if not calls:
        ctx.finding(rr, f"{ho.construct}::uses _replace_expr", "out= handling no longer goes through _replace_expr", func=ho)
    return rr


def r11_5(ctx):
    rr = RuleResult("R11.5", "COVER", "Array.copy/__deepcopy__ return a distinct Array over the same expression", min_instances=2)
    repo = ctx.repo
    arr = _array_cls(repo)
    cp = arr.methods.get("copy")
    need(cp is not None, "Array.copy")
    rets = [n for n in body_walk(cp.node) if isinstance(n, ast.Return)]
    rr.inst(site(cp), returns=[norm(r) for r in rets])
    for r in rets:
        v = r.value
        ok = (
            isinstance(v, ast.Call)
            and (dotted(v.func) in ("Array", "new_collection", "type(self)") or unparse(v.func) == "type(self)")
            and len(v.args) == 1
            and unparse(v.args[0]) in ("self._expr", "self.expr")
        )
        if not ok:
            ctx.finding(rr, site(cp, r), "Array.copy() must build a new Array over self's expression (returning self, or copying caches, makes copies observe in-place edits)", func=cp, node=r)
    if not rets:
        ctx.finding(rr, site(cp), "Array.copy() returns nothing", func=cp)
    dc = arr.methods.get("__deepcopy__")
    need(dc is not None, "Array.__deepcopy__")
    uses_copy = any(isinstance(n, ast.Call) and unparse(n.func) in ("self.copy", "Array") for n in body_walk(dc.node))
    returns_self = any(isinstance(n, ast.Return) and unparse(n.value) == "self" for n in body_walk(dc.node))
    rr.inst(site(dc), via_copy=uses_copy)
    if not uses_copy or returns_self:
        ctx.finding(rr, site(dc), "__deepcopy__ must return a distinct collection (self.copy())", func=dc)
    return rr


def _slot_positions(repo):
    out = {}
    for c in repo.expr_classes():
        hit = repo.class_attr(c, "_parameters")
        if not hit or isinstance(hit[1], FuncInfo):
            continue
        ps = const_value(hit[1]) or []
        slots = [(i, p) for i, p in enumerate(ps) if p in SLOT_PARAMS or p.endswith("kwargs")]
        if slots:
            out[c.fq] = (c, slots)
    return out


def _only_called_from_expr_methods(cg, f, expr_fqs, _depth=0):
    """Module-level helper whose every caller is a method of an expression class
    (or another such helper): its parameters are expressions and their operands."""
    callers = [(s, e) for s, e in cg.callers(f.fq, kinds=("call",)) if e.exact]
    if not callers or _depth > 3:
        return False
    for src, _e in callers:
        sf = cg.funcs.get(src)
        if sf is None:
            return False
        g = sf
        while g is not None and g.cls is None:
            g = g.parent
        if g is not None and g.cls.fq in expr_fqs:
            continue
        if sf.fq != f.fq and _only_called_from_expr_methods(cg, sf, expr_fqs, _depth + 1):
            continue
        return False
    return True


def r11_7(ctx):
    rr = RuleResult(
        "R11.7", "WHO",
        "no live collection handle is captured inside a container operand: every construction site that feeds a "
        "container-valued parameter from a parameter of a non-expression function passes it through "
        "snapshot_collections (or re-threads an existing operand)",
        min_instances=40,
    )
    repo = ctx.repo
    cg = callgraph(ctx)
    expr_fqs = {c.fq for c in repo.expr_classes()}
    used_exempt = set()
    for cfq, (c, slots) in sorted(_slot_positions(repo).items()):
        for f, m, call in cg.constructions.get(cfq, []):
            if f is None:
                continue
            # rewrite hooks / methods of expression classes only see expressions and their operands
            g = f
            while g is not None and g.cls is None:
                g = g.parent
            in_expr_method = (g is not None and g.cls.fq in expr_fqs) or _only_called_from_expr_methods(cg, f, expr_fqs)
            defs = Defs(f.node)
            for i, p in slots:
                arg = None
                starred_before = any(isinstance(a, ast.Starred) for a in call.args[: i + 1])
                if i < len(call.args) and not starred_before:
                    arg = call.args[i]
                for kw in call.keywords:
                    if kw.arg == p:
                        arg = kw.value
                label = f"{c.name}.{p}"
                cst = f"{f.construct}::{label}"
                if arg is None:
                    if starred_before:
                        st = next(a for a in call.args if isinstance(a, ast.Starred))
                        arg = st.value
                    else:
                        rr.inst(cst, argument="<default>", verdict="default value")
                        continue
                if in_expr_method:
                    rr.inst(cst, argument=unparse(arg), verdict="inside an expression-class method: operands of existing nodes")
                    continue
                rs = roots(arg, defs, sanitizers=SANITIZERS)
                rr.inst(cst, argument=unparse(arg), parameter_roots=sorted(rs))
                if not rs:
                    continue
                key = (f.construct, label)
                if key in R117_EXEMPT:
                    rr.exempt(cst, R117_EXEMPT[key])
                    used_exempt.add(key)
                    continue
                ctx.finding(
                    rr, cst,
                    f"container operand {label} is fed from parameter(s) {sorted(rs)} of {f.qualname} without snapshot_collections: "
                    "a dask array nested in it stays a live handle, so a later in-place update changes this expression under an unchanged name",
                    func=f, node=call,
                )
    # the sanitizer itself must detach Arrays with .copy()
    sn = repo.mod("dask_array._core_utils").functions.get("snapshot_collections")
    need(sn is not None, "dask_array/_core_utils.py::snapshot_collections")
    copies = [n for n in body_walk(sn.node) if isinstance(n, ast.Return) and isinstance(n.value, ast.Call) and isinstance(n.value.func, ast.Attribute) and n.value.func.attr == "copy"]
    rr.inst(site(sn), detaches_with=[norm(n) for n in copies])
    if not copies:
        ctx.finding(rr, site(sn), "snapshot_collections no longer detaches an Array with .copy()", func=sn)
    else:
        cfg = cfg_of(ctx, sn)
        for r in copies:
            g = cfg.guards(r)
            if not any("Array" in idents_in(t) and "isinstance" in idents_in(t) and pol for t, pol in g):
                ctx.finding(rr, site(sn, r), "the .copy() detachment is no longer guarded by isinstance(obj, Array)", func=sn, node=r)
    return rr


def r11_4(ctx):
    from .c10 import kernel_write_findings

    rr = RuleResult("R11.4", "PURE", "the assignment kernel (slicing/_utils.py::setitem) copies its input block before writing into it", min_instances=1)
    f = ctx.repo.mod("dask_array.slicing._utils").func("setitem")
    _, hits = kernel_write_findings(ctx, f)
    rr.inst(site(f), writes_through_argument_alias=[h[1] for h in hits])
    for node, reason, toks in hits:
        if toks == ["indices"]:
            rr.exempt(site(f, node), "normalisation of the per-task index list (fresh per task execution); see C10 R10.1 exemption")
            continue
        ctx.finding(rr, site(f, node), reason + ": collections derived from x before the assignment share that block", func=f, node=node)
    return rr


def r11_6(ctx):
    from .c10 import r10_3

    rr = r10_3(ctx)
    rr.rule = "R11.6"
    for fd in rr.findings:
        fd.rule = "R11.6"
        fd.prop = PROP
    return rr


def r11_8(ctx):
    from .taskarity import task_arity_rule

    return task_arity_rule(
        ctx, "R11.8",
        "the tasks of the assignment path (slicing/_setitem.py: the SetItem kernel call and the single-chunk concatenation of a "
        "dask-array value) pass their kernels an argument list the kernel's def can bind",
        in_scope=lambda rel: rel == "dask_array/slicing/_setitem.py",
        min_decided=2,
        consequence="x[index] = <dask array value with more than one block> raises TypeError at compute instead of computing the NumPy result of the assignment",
    )


RULES = [r11_1, r11_2, r11_3, r11_4, r11_5, r11_6, r11_7, r11_8]

from .upstream import upstream_facts  # noqa: E402

RULES_THOROUGH = RULES + [upstream_facts]

LEVEL_TEXT = (
    "Static decision of the mechanism that makes in-place operations local: single mutation point for the expression "
    "pointer (who-may-write), cache-invalidation coverage, freshly-constructed-expression check at every _replace_expr "
    "call, distinct-copy check, and a def-use taint rule that no live dask_array.Array handle is captured by reference in a "
    "container operand at any of the expression construction sites (the rule that exposed three genuine defects, fixed in "
    "/repo), plus writer/reader agreement between the assignment path's hand-built tasks and their kernels. Holds for all programs because the "
    "sites are enumerated exhaustively; NumPy-equality of the assigned values is not decided."
)
LEVEL_NOTE = (
    "Trusted: CPython ast, the engine's class/MRO and construction-site resolution, flow-insensitive def-use slices. "
    "Assumes dask's Expr.__new__ unpacks only top-level collection operands (read from the installed dask source). "
    "Exemption table for container slots is frozen in sa/rules/c11.py with one reason per site."
)
TECHNIQUE = "static analysis: who-may-write + cache coverage + def-use taint from API parameters to container operand slots (ast, call graph)"

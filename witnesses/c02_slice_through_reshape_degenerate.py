"""Witness for R02.13 (repaired in /repo): integer / slice indices pushed through a reshape whose sliced input is 0-d,
a single block or already of the target shape.  Exit 0 when every result equals NumPy's."""
import sys
import warnings

import numpy as np

import dask_array as da

warnings.simplefilter("ignore")
rs = np.random.RandomState(2)
a = rs.randint(-5, 9, size=(8, 6)).astype(float)
bad = 0


def check(label, r, want):
    global bad
    try:
        if np.shape(r) != np.shape(want) or not np.allclose(r.compute(), want):
            bad += 1
            print(label, "differs")
    except Exception as e:  # noqa: BLE001
        bad += 1
        print(label, type(e).__name__, str(e)[:80])


for ch in [(3, 6), (8, 6), (2, 3)]:
    x = da.from_array(a, chunks=ch)
    c = da.corrcoef(x)
    w = np.corrcoef(a)
    for k in [(slice(None), 6), (3,), (slice(1, 3), slice(None)), (slice(None), slice(2, 5)), (2, 5)]:
        check(f"corrcoef {ch} {k}", c[k], w[k])
    v = da.from_array(a[:, 0], chunks=ch[0])
    check(f"(n,)->(n,1) [3] {ch}", v.reshape((8, 1))[3], a[:, 0].reshape((8, 1))[3])
    check(f"(n,)->(n,1,1) [3:5] {ch}", v.reshape((8, 1, 1))[3:5], a[:, 0].reshape((8, 1, 1))[3:5])
    check(f"(8,6)->(8,2,3) [5] {ch}", x.reshape((8, 2, 3))[5], a.reshape((8, 2, 3))[5])
    check(f"(8,6)->(8,2,3) [0:1] {ch}", x.reshape((8, 2, 3))[0:1], a.reshape((8, 2, 3))[0:1])
sys.exit(1 if bad else 0)

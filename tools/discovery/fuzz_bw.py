import numpy as np, random, warnings, sys
warnings.simplefilter("ignore")
import dask_array as da
seed=int(sys.argv[1]) if len(sys.argv)>1 else 0
random.seed(seed); bad=0
def rch(n): return random.choice([1,2,3,n,(n-1,1) if n>1 else n])
def post(r, want):
    k=random.random()
    nd=want.ndim
    if nd==0 or 0 in want.shape: return r, want, 'id'
    if k<0.35:
        idx=tuple(random.choice([slice(None), slice(1,None), slice(None,-1), slice(None,None,2), slice(None,None,-1), random.randrange(s), slice(0,0), slice(1,2)]) for s in want.shape)
        return r[idx], want[idx], f'slice{idx}'
    if k<0.5:
        ax=random.randrange(nd); ind=[random.randrange(want.shape[ax]) for _ in range(3)]
        return da.take(r,ind,axis=ax), np.take(want,ind,axis=ax), f'take{ax}{ind}'
    if k<0.6:
        return r.T, want.T, 'T'
    if k<0.7:
        ch=tuple(rch(s) for s in want.shape); return r.rechunk(ch), want, f'rechunk{ch}'
    if k<0.8:
        ax=random.randrange(nd); return r.sum(axis=ax), want.sum(axis=ax), f'sum{ax}'
    if k<0.9:
        return r+1, want+1, 'add1'
    return r, want, 'id'
for p in range(int(sys.argv[2]) if len(sys.argv)>2 else 300):
    n,m=random.choice([(6,4),(4,6),(5,3)])
    a=np.arange(float(n*m)).reshape(n,m); b=(np.arange(float(n*m)).reshape(n,m)%5)*10
    kind=random.choice(['bw_add','bw_adj','bw_bcast','bw_outer','bw_contract','mb2','mb_chunks','bw_newaxis','bw_T','mb_bcast'])
    x=da.from_array(a,chunks=(rch(n),rch(m)))
    log=[kind, x.chunks]
    try:
        if kind=='bw_add':
            y=da.from_array(b,chunks=(rch(n),rch(m))); r=da.blockwise(np.add,'ij',x,'ij',y,'ij',dtype=float); want=a+b
        elif kind=='bw_adj':
            y=da.from_array(b,chunks=(rch(n),rch(m))); f=lambda p,q: np.repeat(p+q,2,axis=1)
            r=da.blockwise(f,'ij',x,'ij',y,'ij',dtype=float,adjust_chunks={'j':lambda c:2*c}); want=np.repeat(a+b,2,axis=1)
        elif kind=='bw_bcast':
            y=da.from_array(b[:1],chunks=(1,rch(m))); r=da.blockwise(np.multiply,'ij',x,'ij',y,'ij',dtype=float); want=a*b[:1]
        elif kind=='bw_outer':
            v=da.from_array(b[0],chunks=rch(m)); u=da.from_array(a[:,0],chunks=rch(n)); r=da.blockwise(np.multiply.outer,'ij',u,'i',v,'j',dtype=float); want=np.multiply.outer(a[:,0],b[0])
        elif kind=='bw_contract':
            y=da.from_array(b.T.copy(),chunks=(rch(m),rch(n)))
            r=da.blockwise(lambda p,q: sum(pp@qq for pp,qq in zip(p,q)) ,'ik',x,'ij',y,'jk',dtype=float,concatenate=False) if False else da.tensordot(x,y,axes=1); want=a@b.T
        elif kind=='mb2':
            y=da.from_array(b,chunks=x.chunks); r=da.map_blocks(lambda p,q: p-q, x, y, dtype=float); want=a-b
        elif kind=='mb_chunks':
            y=da.from_array(b,chunks=x.chunks); r=da.map_blocks(lambda p,q: np.repeat(p-q,2,axis=0), x, y, dtype=float, chunks=(tuple(2*c for c in x.chunks[0]), x.chunks[1])); want=np.repeat(a-b,2,axis=0)
        elif kind=='bw_newaxis':
            r=da.blockwise(lambda p: np.stack([p,p*2],axis=-1),'ijk',x,'ij',dtype=float,new_axes={'k':2}); want=np.stack([a,a*2],axis=-1)
        elif kind=='bw_T':
            y=da.from_array(b.T.copy(),chunks=(rch(m),rch(n))); r=da.blockwise(lambda p,q: p+q.T,'ij',x,'ij',y,'ji',dtype=float); want=a+b
        elif kind=='mb_bcast':
            y=da.from_array(b[:, :1],chunks=(x.chunks[0],1)); r=da.map_blocks(lambda p,q: p*q, x, y, dtype=float); want=a*b[:, :1]
        for _ in range(random.randint(1,3)):
            r,want,l=post(r,want); log.append(l)
        g=r.compute()
        if g.shape!=want.shape or not np.allclose(g,want): bad+=1; print('MISMATCH',seed,p,log)
    except Exception as e:
        bad+=1; print('RAISE',seed,p,type(e).__name__,str(e)[:100],log)
print('bad',bad)

"""Small def-use utilities over one function body (flow-insensitive slices).

``Defs`` collects, for every local name, the expressions it is ever bound to
(assignments, augmented assignments, loop/with/comprehension targets, walrus).
``roots`` follows those bindings backwards from an expression to the function
*parameters* it may be derived from, stopping at sanitizer calls and at
attribute projections that cannot carry the tracked kind of value.
"""

from __future__ import annotations

import ast

from .model import dotted


class Defs:
    def __init__(self, func_node):
        self.func = func_node
        a = func_node.args
        self.params = [x.arg for x in a.posonlyargs + a.args + a.kwonlyargs]
        if a.vararg:
            self.params.append(a.vararg.arg)
        if a.kwarg:
            self.params.append(a.kwarg.arg)
        self.vararg = a.vararg.arg if a.vararg else None
        self.kwarg = a.kwarg.arg if a.kwarg else None
        self.defs: dict[str, list] = {}
        self.kinds: dict[str, list] = {}  # parallel to defs: "assign" | "aug" | "loop" | "with" | "comp" | "walrus" | "store" | "unpack"
        self._mut = None
        self._built = None
        self._kind = "assign"
        self._collect(func_node)

    def _bind(self, target, value, kind=None):
        for n in ast.walk(target):
            if isinstance(n, ast.Name):
                self.defs.setdefault(n.id, []).append(value)
                self.kinds.setdefault(n.id, []).append(kind or self._kind)
            elif isinstance(n, ast.Starred):
                continue

    def plain_single_def(self, name):
        """The value of ``name`` when it is bound exactly once (or several times to the very same expression), by a plain ``name = value`` assignment (not a loop /
        with / comprehension target, not an unpacking, never augmented or stored into); else None."""
        vs, ks = self.defs.get(name, []), self.kinds.get(name, [])
        if self.built_up(name):
            # a container that is filled after its (empty) initialisation does not stand for its initialiser; when the
            # filling is the plain accumulate-in-a-loop idiom it stands for the equivalent comprehension
            return self.as_comprehension(name)
        if len(vs) == 1 and ks == ["assign"] and name not in self.params:
            return vs[0]
        # the same plain assignment repeated (``arg = args[i]`` in two sibling loops): the name still stands for one
        # expression, so re-using a local's name elsewhere in the function does not make it opaque
        if len(vs) > 1 and set(ks) == {"assign"} and name not in self.params and all(v is not None for v in vs):
            if len({ast.dump(v) for v in vs}) == 1:
                return vs[0]
        return None

    def _collect(self, root):
        for n in ast.walk(root):
            if n is not root and isinstance(n, (ast.FunctionDef, ast.AsyncFunctionDef, ast.Lambda)):
                # nested scopes share names conservatively: treat their bindings as bindings here
                pass
            if isinstance(n, ast.Assign):
                self._kind = "assign"
                for t in n.targets:
                    self._bind_target(t, n.value)
            elif isinstance(n, ast.AnnAssign) and n.value is not None:
                self._kind = "assign"
                self._bind_target(n.target, n.value)
            elif isinstance(n, ast.AugAssign):
                self._kind = "aug"
                self._bind_target(n.target, n.value)
            elif isinstance(n, (ast.For, ast.AsyncFor)):
                self._bind(n.target, n.iter, "loop")
            elif isinstance(n, ast.comprehension):
                self._bind(n.target, n.iter, "comp")
            elif isinstance(n, (ast.With, ast.AsyncWith)):
                for it in n.items:
                    if it.optional_vars is not None:
                        self._bind(it.optional_vars, it.context_expr, "with")
            elif isinstance(n, ast.NamedExpr):
                self._bind(n.target, n.value, "walrus")

    def _bind_target(self, target, value):
        # container mutation through subscript/attribute stores also (re)defines the base name
        if isinstance(target, (ast.Subscript, ast.Attribute)):
            base = target
            while isinstance(base, (ast.Subscript, ast.Attribute)):
                base = base.value
            if isinstance(base, ast.Name):
                self.defs.setdefault(base.id, []).append(value)
                self.kinds.setdefault(base.id, []).append("store")
            return
        if isinstance(target, (ast.Tuple, ast.List)) and isinstance(value, (ast.Tuple, ast.List)) and len(target.elts) == len(value.elts) and not any(isinstance(e, ast.Starred) for e in target.elts + value.elts):
            for t, v in zip(target.elts, value.elts):
                self._bind_target(t, v)
            return
        self._bind(target, value, "unpack" if isinstance(target, (ast.Tuple, ast.List)) and self._kind == "assign" else None)

    MUTATORS = frozenset({"append", "extend", "update", "insert", "add", "setdefault", "pop", "remove", "clear", "discard", "sort", "reverse", "popitem", "appendleft"})

    def built_up(self, name):
        """Is the local ``name`` mutated through a method call rooted at it (``g.add(v)``, ``g[k].append(v)``,
        ``g.setdefault(k, set()).add(v)``)?"""
        if self._built is None:
            self._built = set()
            for n in ast.walk(self.func):
                if isinstance(n, ast.Call) and isinstance(n.func, ast.Attribute) and n.func.attr in self.MUTATORS:
                    r = n.func.value
                    while isinstance(r, (ast.Attribute, ast.Call, ast.Subscript)):
                        r = r.func if isinstance(r, ast.Call) else r.value
                    if isinstance(r, ast.Name):
                        self._built.add(r.id)
        return name in self._built

    def as_comprehension(self, name):
        """``X = [] / set() / {}-less``; ``for t in Y: [if c:] X.append(e) | X.add(e) | X.update(e)`` (the loop body being
        exactly that statement, loops possibly nested) as the comprehension it is equivalent to; None for anything else."""
        vs, ks = self.defs.get(name, []), self.kinds.get(name, [])
        if len(vs) != 1 or ks != ["assign"] or name in self.params:
            return None
        init = vs[0]
        if isinstance(init, ast.List) and not init.elts:
            kind = "list"
        elif isinstance(init, ast.Call) and isinstance(init.func, ast.Name) and init.func.id in ("set", "list") and not init.args and not init.keywords:
            kind = init.func.id
        else:
            return None
        calls = []
        for n in ast.walk(self.func):
            if isinstance(n, ast.Call) and isinstance(n.func, ast.Attribute) and n.func.attr in self.MUTATORS:
                r = n.func.value
                while isinstance(r, (ast.Attribute, ast.Call, ast.Subscript)):
                    r = r.func if isinstance(r, ast.Call) else r.value
                if isinstance(r, ast.Name) and r.id == name:
                    calls.append(n)
        if len(calls) != 1:
            return None
        call = calls[0]
        if not (isinstance(call.func.value, ast.Name) and len(call.args) == 1 and not call.keywords):
            return None
        method = call.func.attr
        if (kind == "list" and method not in ("append", "extend")) or (kind == "set" and method not in ("add", "update")):
            return None
        # the statement chain enclosing the call: Expr <- (If)* <- For <- (For)* , each body holding exactly one statement
        parents = {}
        for p in ast.walk(self.func):
            for ch in ast.iter_child_nodes(p):
                parents[ch] = p
        stmt = parents.get(call)
        if not isinstance(stmt, ast.Expr):
            return None
        gens, ifs = [], []
        cur = stmt
        while True:
            par = parents.get(cur)
            if isinstance(par, ast.If) and par.body == [cur] and len(par.orelse) <= 1:
                ifs.append(par.test)
                cur = par
            elif isinstance(par, ast.If) and par.orelse == [cur] and len(par.body) == 1:
                # the else-arm of a two-way split (``if c: A.append(..) else: B.append(..)``)
                ifs.append(self._negated(par.test))
                cur = par
            elif isinstance(par, ast.For) and par.body == [cur] and not par.orelse:
                gens.append(ast.comprehension(target=par.target, iter=par.iter, ifs=list(reversed(ifs)), is_async=0))
                ifs = []
                cur = par
            else:
                break
        if not gens or ifs:
            return None
        if isinstance(parents.get(cur), (ast.For, ast.While, ast.If, ast.Try, ast.With)):
            return None  # the accumulate loop sits inside further control flow: not a comprehension over the whole fill
        gens = list(reversed(gens))
        elt = call.args[0]
        # ``for i, x in enumerate(Y)`` with ``i`` unused is ``for x in Y``
        for g in gens:
            if (
                isinstance(g.iter, ast.Call) and isinstance(g.iter.func, ast.Name) and g.iter.func.id == "enumerate" and len(g.iter.args) == 1
                and isinstance(g.target, ast.Tuple) and len(g.target.elts) == 2 and isinstance(g.target.elts[0], ast.Name)
            ):
                i_name = g.target.elts[0].id
                used = any(isinstance(m, ast.Name) and m.id == i_name for part in [elt] + [t for gg in gens for t in gg.ifs] + [gg.iter for gg in gens if gg is not g] for m in ast.walk(part))
                if not used:
                    g.target, g.iter = g.target.elts[1], g.iter.args[0]
        if method in ("extend", "update"):
            tmp = ast.Name(id="_elem_", ctx=ast.Load())
            gens.append(ast.comprehension(target=ast.Name(id="_elem_", ctx=ast.Store()), iter=elt, ifs=[], is_async=0))
            elt = tmp
        node = ast.ListComp(elt=elt, generators=gens) if kind == "list" else ast.SetComp(elt=elt, generators=gens)
        return ast.fix_missing_locations(ast.copy_location(node, init))

    _FLIP = {ast.Is: ast.IsNot, ast.IsNot: ast.Is, ast.Eq: ast.NotEq, ast.NotEq: ast.Eq, ast.In: ast.NotIn, ast.NotIn: ast.In}

    @classmethod
    def _negated(cls, test):
        if isinstance(test, ast.Compare) and len(test.ops) == 1 and type(test.ops[0]) in cls._FLIP:
            return ast.Compare(left=test.left, ops=[cls._FLIP[type(test.ops[0])]()], comparators=test.comparators)
        if isinstance(test, ast.UnaryOp) and isinstance(test.op, ast.Not):
            return test.operand
        return ast.UnaryOp(op=ast.Not(), operand=test)

    def mutations(self, name):
        """Values appended/updated into a local container: x.append(v), x.extend(v), x.update(v), x[k] = v."""
        if self._mut is None:
            self._mut = {}
            for n in ast.walk(self.func):
                if isinstance(n, ast.Call) and isinstance(n.func, ast.Attribute) and isinstance(n.func.value, ast.Name):
                    if n.func.attr in ("append", "extend", "update", "insert", "add", "setdefault"):
                        lst = self._mut.setdefault(n.func.value.id, [])
                        lst.extend(n.args)
                        lst.extend(k.value for k in n.keywords)
        return self._mut.get(name, [])


DEFAULT_SAFE_ATTRS = frozenset(
    {"expr", "_expr", "shape", "chunks", "dtype", "ndim", "_meta", "numblocks", "name", "_name", "size", "npartitions", "chunksize", "nbytes", "itemsize"}
)
DEFAULT_SAFE_CALLS = frozenset(
    {"len", "int", "float", "bool", "str", "isinstance", "hasattr", "callable", "type", "id", "repr", "range", "max", "min", "sum", "any", "all", "funcname", "tokenize", "hash", "abs"}
)


def roots(expr, defs: Defs, sanitizers=frozenset(), safe_attrs=DEFAULT_SAFE_ATTRS, safe_calls=DEFAULT_SAFE_CALLS, _seen=None):
    """Parameter names ``expr`` may be derived from (see module docstring)."""
    _seen = _seen if _seen is not None else set()
    out = set()

    def visit(n):
        if isinstance(n, ast.Call):
            fn = dotted(n.func) or ""
            tail = fn.rsplit(".", 1)[-1]
            if tail in sanitizers or tail in safe_calls:
                return
            # method call on a value: receiver and arguments both flow to the result
            visit(n.func) if isinstance(n.func, ast.Attribute) else None
            for a in n.args:
                visit(a.value if isinstance(a, ast.Starred) else a)
            for k in n.keywords:
                visit(k.value)
            return
        if isinstance(n, ast.Attribute):
            if n.attr in safe_attrs:
                return
            visit(n.value)
            return
        if isinstance(n, ast.Name):
            if n.id in ("self", "cls"):
                return
            key = n.id
            if key in _seen:
                return
            _seen.add(key)
            if key in defs.params:
                out.add(key)
            for v in defs.defs.get(key, []):
                visit(v)
            for v in defs.mutations(key):
                visit(v)
            return
        if isinstance(n, ast.Lambda):
            return
        if isinstance(n, (ast.ListComp, ast.SetComp, ast.GeneratorExp)):
            visit(n.elt)
            for g in n.generators:
                visit(g.iter)
            return
        if isinstance(n, ast.DictComp):
            visit(n.key)
            visit(n.value)
            for g in n.generators:
                visit(g.iter)
            return
        if isinstance(n, ast.Compare):
            return  # booleans carry no handles
        if isinstance(n, ast.IfExp):
            visit(n.body)  # the test only selects, it does not flow into the value
            visit(n.orelse)
            return
        if isinstance(n, ast.BoolOp):
            for v in n.values:
                visit(v)
            return
        for c in ast.iter_child_nodes(n):
            if isinstance(c, (ast.expr, ast.keyword, ast.Starred)):
                visit(c.value if isinstance(c, (ast.keyword, ast.Starred)) else c)

    visit(expr)
    return out

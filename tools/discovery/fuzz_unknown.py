import numpy as np, random, warnings, sys
warnings.simplefilter("ignore")
import dask_array as da
random.seed(int(sys.argv[1]) if len(sys.argv)>1 else 0)
a = np.arange(8*6.).reshape(8,6)
keep = a[:,0] % 12 != 0
def fresh():
    x = da.from_array(a, chunks=(random.choice([2,3,8]), random.choice([2,3,6])))
    m = da.from_array(keep, chunks=x.chunks[0])
    return x[m]
ref = a[keep]
ops = {
 "sum0": (lambda y: y.sum(axis=0), lambda r: r.sum(axis=0)),
 "sum1": (lambda y: y.sum(axis=1), lambda r: r.sum(axis=1)),
 "mean": (lambda y: y.mean(), lambda r: r.mean()),
 "add": (lambda y: y+1, lambda r: r+1),
 "T": (lambda y: y.T, lambda r: r.T),
 "Tsum": (lambda y: (y.T*2).sum(axis=1), lambda r: (r.T*2).sum(axis=1)),
 "col": (lambda y: y[:, 1:4], lambda r: r[:,1:4]),
 "colcol": (lambda y: y[:, 1:5][:, 1:3], lambda r: r[:,1:5][:,1:3]),
 "colint": (lambda y: y[:, 2], lambda r: r[:,2]),
 "colcolsum": (lambda y: (y[:, 1:5]+1)[:, ::2].sum(axis=0), lambda r: (r[:,1:5]+1)[:, ::2].sum(axis=0)),
 "rows": (lambda y: y[1:3], lambda r: r[1:3]),
 "rowsneg": (lambda y: y[::-1], lambda r: r[::-1]),
 "row0": (lambda y: y[0], lambda r: r[0]),
 "concat0": (lambda y: da.concatenate([y, y]), lambda r: np.concatenate([r, r])),
 "concat1": (lambda y: da.concatenate([y, y*2], axis=1), lambda r: np.concatenate([r, r*2], axis=1)),
 "stack": (lambda y: da.stack([y, y]), lambda r: np.stack([r, r])),
 "rechunk1": (lambda y: y.rechunk({1: 6}), lambda r: r),
 "rechunk0": (lambda y: y.rechunk({0: 2}), lambda r: r),
 "reshape": (lambda y: y.reshape(-1), lambda r: r.reshape(-1)),
 "expand": (lambda y: y[:, None, :], lambda r: r[:, None, :]),
 "cumsum1": (lambda y: y.cumsum(axis=1), lambda r: r.cumsum(axis=1)),
 "cumsum0": (lambda y: y.cumsum(axis=0), lambda r: r.cumsum(axis=0)),
 "argmax1": (lambda y: y.argmax(axis=1), lambda r: r.argmax(axis=1)),
 "argmax0": (lambda y: y.argmax(axis=0), lambda r: r.argmax(axis=0)),
 "where": (lambda y: da.where(y>10, y, -1.0), lambda r: np.where(r>10, r, -1.0)),
 "matmul": (lambda y: y @ da.from_array(a.T[:, :3], chunks=3), lambda r: r @ a.T[:, :3]),
 "dot_T": (lambda y: y.T @ y, lambda r: r.T @ r),
 "flip": (lambda y: da.flip(y, 1), lambda r: np.flip(r, 1)),
 "roll1": (lambda y: da.roll(y, 1, axis=1), lambda r: np.roll(r, 1, axis=1)),
 "roll0": (lambda y: da.roll(y, 1, axis=0), lambda r: np.roll(r, 1, axis=0)),
 "len": (lambda y: da.from_array(np.array(len(y)), chunks=()) , lambda r: np.array(len(r))),
 "ccs": (lambda y: y.compute_chunk_sizes()[1:3], lambda r: r[1:3]),
 "ccs_sum": (lambda y: (y.compute_chunk_sizes()+1).sum(axis=0), lambda r: (r+1).sum(axis=0)),
 "bcast": (lambda y: y + da.from_array(a[0], chunks=3), lambda r: r + a[0]),
 "addself": (lambda y: y + y[:, ::-1], lambda r: r + r[:, ::-1]),
 "mask2": (lambda y: y[y[:, 0] > 20], lambda r: r[r[:,0]>20]),
 "diff1": (lambda y: da.diff(y, axis=1), lambda r: np.diff(r, axis=1)),
 "diff0": (lambda y: da.diff(y, axis=0), lambda r: np.diff(r, axis=0)),
 "topk": (lambda y: da.topk(y, 2, axis=1), lambda r: np.sort(r, axis=1)[:, ::-1][:, :2]),
 "sq": (lambda y: (y[:, :1]).squeeze(axis=1), lambda r: r[:, :1].squeeze(axis=1)),
 "tile": (lambda y: da.tile(y, (1,2)), lambda r: np.tile(r, (1,2))),
 "pad": (lambda y: da.pad(y, ((0,0),(1,1))), lambda r: np.pad(r, ((0,0),(1,1)))),
}
bad=0
for name,(f,g) in ops.items():
    for t in range(4):
        try:
            got = f(fresh()).compute(); want = g(ref)
            if np.shape(got)!=np.shape(want) or not np.allclose(got, want):
                bad+=1; print("MISMATCH", name, np.shape(got), np.shape(want)); break
        except (ValueError, NotImplementedError, TypeError) as e:
            print("refused", name, type(e).__name__, str(e)[:60]); break
        except Exception as e:
            bad+=1; print("RAISE", name, type(e).__name__, str(e)[:90]); break
print("bad", bad)

import numpy as np, dask, dask_array as da, traceback
x = da.from_array(np.arange(24.0).reshape(4,6), chunks=(2,3))
progs = {'elem': x+1, 'sumall': x.sum(), 'sumax': x.sum(axis=0), 'slide': np.lib.stride_tricks.sliding_window_view(x, 3, axis=1).sum(axis=-1) if False else da.sliding_window_view(x, 3, axis=1).sum(axis=-1)}
for k,y in progs.items():
    ref = y.compute()
    for nm, f in [('dask.compute', lambda y: dask.compute(y)[0]), ('persist', lambda y: y.persist().compute()), ('dask.persist', lambda y: dask.persist(y)[0].compute()), ('dask.optimize', lambda y: dask.optimize(y)[0].compute()), ('x.optimize', lambda y: y.optimize().compute()), ('to_delayed', lambda y: np.array(dask.compute(*y.to_delayed().ravel().tolist())[0]) )]:
        try:
            v = f(y)
            ok = np.allclose(np.asarray(v).ravel()[:1], np.asarray(ref).ravel()[:1]) if nm=='to_delayed' else np.allclose(v, ref)
            print(k, nm, 'OK' if ok else 'MISMATCH')
        except Exception as e:
            print(k, nm, 'RAISES', type(e).__name__, str(e)[:120])

"""Checker self-test: seeded-defect variants of the real files (DESIGN.md 2.5).

Each variant is a small source edit applied to a scratch copy of the package
(created with tempfile outside /repo and /verif, removed in a ``finally``).
The named rule must fire on the variant *naming the expected construct*; a
"twin" variant is a behaviour-preserving edit on which the property's rules
must stay silent.  Only the checker is executed - never the repository.
"""

from __future__ import annotations

import importlib
import json
import os
import shutil
import tempfile
import time
from concurrent.futures import ProcessPoolExecutor

from .model import REPO, AnalysisError, Repo
from .report import EVIDENCE_DIR, evaluate, load_known


def _scratch_copy(root):
    d = tempfile.mkdtemp(prefix="sa-selftest-")
    shutil.copytree(
        os.path.join(root, "dask_array"),
        os.path.join(d, "dask_array"),
        ignore=shutil.ignore_patterns("tests", "__pycache__", "*.pyc", "*.so"),
    )
    for extra in ("pyproject.toml", "setup.cfg", "setup.py"):
        p = os.path.join(root, extra)
        if os.path.isfile(p):
            shutil.copy(p, d)
    copy_native_sources(root, d)
    return d


def copy_native_sources(root, d):
    """The Rust sources of the native layers (C22 reads their pyo3 interface): ~300 KB."""
    rs = os.path.join(root, "crates", "dask-array-python", "src")
    if os.path.isdir(rs):
        shutil.copytree(rs, os.path.join(d, "crates", "dask-array-python", "src"))


def _apply(d, v):
    """Apply the variant's edits; return None on success or a reason string."""
    for path, old, new in v["edits"]:
        p = os.path.join(d, path)
        if not os.path.isfile(p):
            return f"file missing: {path}"
        s = open(p).read()
        if old is None:
            s = s + new
        else:
            if s.count(old) != 1:
                return f"anchor text occurs {s.count(old)} times in {path}"
            s = s.replace(old, new)
        if p.endswith(".py"):
            try:
                compile(s, p, "exec")
            except SyntaxError as e:
                return f"variant does not compile: {e}"
        open(p, "w").write(s)
    return None


def run_variant(v, root=None):
    root = root or REPO
    d = _scratch_copy(root)
    try:
        why = _apply(d, v)
        if why:
            return {"id": v["id"], "status": "skipped", "why": why}
        mod = importlib.import_module(f"sa.rules.{v['prop'].lower()}")
        try:
            results = evaluate(v["prop"], mod.RULES, Repo(d), "quick")
        except AnalysisError as e:
            if v.get("expect_analysis_error"):
                return {"id": v["id"], "status": "fired", "via": f"ANALYSIS-ERROR {e}"}
            return {"id": v["id"], "status": "analysis-error", "why": str(e)}
        known, _ = load_known()
        findings = [f for r in results for f in r.findings if f.key not in known]
        if v.get("twin"):
            if findings:
                return {"id": v["id"], "status": "false-alarm", "findings": [f"{f.rule} {f.construct}" for f in findings[:5]]}
            return {"id": v["id"], "status": "silent-ok"}
        hits = [f for f in findings if f.rule == v["rule"] and (v.get("expect", "") in f.construct)]
        if hits:
            return {"id": v["id"], "status": "fired", "via": f"{hits[0].rule} {hits[0].construct}"}
        other = [f"{f.rule} {f.construct}" for f in findings[:5]]
        return {"id": v["id"], "status": "missed", "other_findings": other}
    finally:
        shutil.rmtree(d, ignore_errors=True)


def variants_for(prop=None):
    from .variants import VARIANTS

    return [v for v in VARIANTS if prop is None or v["prop"] == prop]


def run_many(vs, jobs=16):
    if not vs:
        return []
    with ProcessPoolExecutor(max_workers=min(jobs, len(vs))) as ex:
        return list(ex.map(run_variant, vs))


def summarize(res):
    out = {"variants": len(res)}
    for k in ("fired", "silent-ok", "missed", "false-alarm", "skipped", "analysis-error"):
        out[k] = sum(1 for r in res if r["status"] == k)
    return out


def run_for_property(prop, seed=0):
    """Thorough tier: run this property's variants and append the outcome to its evidence file."""
    t0 = time.time()
    vs = variants_for(prop)
    res = run_many(vs)
    summ = summarize(res)
    bad = [r for r in res if r["status"] in ("missed", "false-alarm", "analysis-error")]
    print(f"[{prop}] self-test: {summ}")
    for r in bad:
        print(f"SELFTEST-FAIL property={prop} {r}")
    p = os.path.join(EVIDENCE_DIR, f"{prop}.json")
    if os.path.isfile(p):
        ev = json.load(open(p))
        ev["coverage"]["selftest"] = {"summary": summ, "results": res, "wall_s": round(time.time() - t0, 2)}
        ev["wall_s"] = round(ev.get("wall_s", 0) + time.time() - t0, 3)
        json.dump(ev, open(p, "w"), indent=1, default=str)
    return summ, bad


def _eval_patch(args):
    """Evaluate ONE property's rules on a scratch copy of the package with ``patch`` applied (scratch copy removed)."""
    prop, kind, pid, patch = args
    import importlib
    import shutil
    import subprocess
    import tempfile

    from .model import REPO, AnalysisError, Repo
    from .report import evaluate, load_known

    d = tempfile.mkdtemp(prefix="sa-control-")
    try:
        shutil.copytree(os.path.join(REPO, "dask_array"), os.path.join(d, "dask_array"), ignore=shutil.ignore_patterns("__pycache__", "*.pyc", "*.so"))
        if os.path.isfile(os.path.join(REPO, "pyproject.toml")):
            shutil.copy(os.path.join(REPO, "pyproject.toml"), d)
        copy_native_sources(REPO, d)
        p = subprocess.run(["patch", "-p1", "-s", "-i", patch], cwd=d, capture_output=True, text=True)
        if p.returncode != 0:
            return kind, pid, "does-not-apply", []
        known, _ = load_known()
        mod = importlib.import_module(f"sa.rules.{prop.lower()}")
        try:
            results = evaluate(prop, mod.RULES, Repo(d), "quick")
        except AnalysisError as e:
            return kind, pid, "analysis-error", [str(e)[:160]]
        fs = [f"{f.rule} {f.construct}"[:160] for r in results for f in r.findings if f.key not in known]
        return kind, pid, ("reported" if fs else "silent"), fs[:3]
    finally:
        shutil.rmtree(d, ignore_errors=True)


def controls_for_property(prop):
    """Thorough tier: this property's check against every kept negative control (behaviour-preserving refactorings written
    by sub-agents: must stay silent) and every kept seeded change (which of them this check reports), on scratch copies."""
    from concurrent.futures import ProcessPoolExecutor

    t0 = time.time()
    base = os.path.dirname(os.path.dirname(os.path.abspath(__file__)))
    jobs = []
    for kind, sub in (("refactoring", "refactors"), ("seeded", "seeded")):
        root = os.path.join(base, sub)
        if not os.path.isdir(root):
            continue
        for pid in sorted(os.listdir(root)):
            patch = os.path.join(root, pid, "patch.diff")
            if os.path.isfile(patch):
                jobs.append((prop, kind, pid, patch))
    if not jobs:
        return None
    with ProcessPoolExecutor(max_workers=min(16, os.cpu_count() or 4)) as ex:
        res = list(ex.map(_eval_patch, jobs))
    ref = [r for r in res if r[0] == "refactoring"]
    sed = [r for r in res if r[0] == "seeded"]
    alarms = [r for r in ref if r[2] in ("reported", "analysis-error")]
    own = [r for r in sed if r[1].split("-")[0] == prop]
    summ = {
        "refactorings": len(ref),
        "refactorings_silent": sum(1 for r in ref if r[2] == "silent"),
        "refactorings_not_applicable_to_tree": sum(1 for r in ref if r[2] == "does-not-apply"),
        "seeded_changes": len(sed),
        "seeded_reported_by_this_check": sorted(r[1] for r in sed if r[2] == "reported"),
        "seeded_written_against_this_property": len(own),
        "of_those_reported_by_this_check": sum(1 for r in own if r[2] == "reported"),
        "wall_s": round(time.time() - t0, 2),
    }
    print(f"[{prop}] controls: {summ['refactorings_silent']}/{summ['refactorings']} behaviour-preserving refactorings silent; reports {len(summ['seeded_reported_by_this_check'])} of {summ['seeded_changes']} seeded changes "
          f"({summ['of_those_reported_by_this_check']}/{summ['seeded_written_against_this_property']} of those written against {prop})")
    for r in alarms:
        print(f"CONTROL-FAIL property={prop} refactoring={r[1]} {r[2]} {r[3]}")
    p = os.path.join(EVIDENCE_DIR, f"{prop}.json")
    if os.path.isfile(p):
        ev = json.load(open(p))
        ev["coverage"]["controls"] = {"summary": summ, "false_alarms": [list(r) for r in alarms]}
        ev["wall_s"] = round(ev.get("wall_s", 0) + time.time() - t0, 3)
        json.dump(ev, open(p, "w"), indent=1, default=str)
    return summ


def main(seed=0):
    vs = variants_for(None)
    res = run_many(vs)
    summ = summarize(res)
    for r in res:
        if r["status"] not in ("fired", "silent-ok"):
            print(f"SELFTEST-{r['status'].upper()} {r}")
    print(f"self-test: {summ}")
    return 0 if not [r for r in res if r["status"] in ("missed", "false-alarm", "analysis-error", "skipped")] else 3

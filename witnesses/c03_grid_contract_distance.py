"""Witness for the R03.7 defect (repaired in /repo fc73e08): a per-block-literal consumer two nodes above a rewrite.

Exit 0 when the optimized computation agrees with NumPy, 1 when it raises or differs (ValueError before the repair)."""
import sys

import numpy as np

import dask_array as da

n = np.arange(12.0)
v = np.arange(12.0)
x = da.from_array(n, chunks=3)
y = da.from_array(v, chunks=1)
r = da.repeat(abs(da.take(x + y, [3, 0, 7])), 2)
try:
    got = r.compute()
except Exception as e:  # noqa: BLE001
    print("raised:", type(e).__name__, e)
    sys.exit(1)
want = np.repeat(abs(np.take(n + v, [3, 0, 7])), 2)
sys.exit(0 if np.array_equal(got, want) else 1)

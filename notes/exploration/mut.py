import ast, sys, os
ROOT='/repo/dask_array'
INPLACE_METHODS={'sort','fill','resize','put','itemset','partition','setflags','setfield','byteswap','append','extend','update','pop','clear','insert','remove','add','discard','setdefault','popitem','reverse'}
NP_INPLACE={'copyto':0,'put':0,'place':0,'putmask':0,'fill_diagonal':0,'put_along_axis':0}
def params(fn):
    a=fn.args
    ps=[x.arg for x in a.posonlyargs+a.args+a.kwonlyargs]
    if a.vararg: ps.append(a.vararg.arg)
    if a.kwarg: ps.append(a.kwarg.arg)
    return ps
def root_name(n):
    while isinstance(n,(ast.Subscript,ast.Attribute)):
        n=n.value
    return n.id if isinstance(n,ast.Name) else None
hits=[]
for dp,dn,fns in os.walk(ROOT):
    if '/tests' in dp: continue
    for f in fns:
        if not f.endswith('.py'): continue
        p=os.path.join(dp,f)
        tree=ast.parse(open(p).read())
        for fn in ast.walk(tree):
            if not isinstance(fn,(ast.FunctionDef,ast.AsyncFunctionDef)): continue
            ps=set(params(fn))-{'self','cls'}
            for n in ast.walk(fn):
                tgt=None;kind=None
                if isinstance(n,ast.Assign):
                    for t in n.targets:
                        if isinstance(t,(ast.Subscript,)) and root_name(t) in ps:
                            hits.append((p,fn.name,n.lineno,'subscript-store',root_name(t)))
                elif isinstance(n,ast.AugAssign):
                    r=root_name(n.target)
                    if r in ps:
                        hits.append((p,fn.name,n.lineno,'augassign-'+type(n.target).__name__,r))
                elif isinstance(n,ast.Call):
                    if isinstance(n.func,ast.Attribute):
                        if n.func.attr in INPLACE_METHODS and isinstance(n.func.value,ast.Name) and n.func.value.id in ps:
                            hits.append((p,fn.name,n.lineno,'method-'+n.func.attr,n.func.value.id))
                        if n.func.attr in NP_INPLACE and n.args and root_name(n.args[0]) in ps:
                            hits.append((p,fn.name,n.lineno,'np.'+n.func.attr,root_name(n.args[0])))
                    for kw in n.keywords:
                        if kw.arg=='out' and root_name(kw.value) in ps:
                            hits.append((p,fn.name,n.lineno,'out=',root_name(kw.value)))
for h in sorted(hits): print(*h)
print(len(hits))

"""C22 - one clause: the Python wrappers and the Rust layers agree on their interface (who is exposed, constructor
arity / keywords, the methods the generic translator calls)."""

from __future__ import annotations

import ast
import os

from ..model import body_walk, const_value, dotted, unparse
from ..report import RuleResult
from ..rustiface import RustInterface
from .common import need, site

PROP = "C22"

EXPLANATION = (
    "Decides one structural clause of C22 only. Parity of the graphs the Rust layers emit with the Python _layer() graphs is "
    "semantic equivalence of two programs in two languages and is NOT decided (the extension is not built in this environment "
    "and no Rust front end is installed). What is structural, and invisible to the test suite precisely because the extension is "
    "not built there (the parity tests are skipped): the two sides of the language boundary must agree on their interface, or "
    "every expression of the affected kind raises TypeError / AttributeError where the property promises a graph. The Python-visible "
    "interface of the crate is read from crates/dask-array-python/src/*.rs by a small reader for the pyo3 subset the crate uses "
    "(#[pyclass] structs, #[pymethods] impl blocks with #[new] / #[staticmethod], #[pyo3(signature = ...)], #[pyfunction], the "
    "#[pymodule] registrations; comments and string literals are blanked first; anything unrecognised is an analysis error). "
    "R22.4 COVER every call of a class or function defined in dask_array/_frisky (code the baseline suite never executes) matches the callee's Python signature. R22.1 COVER every call `_rust.<Name>(...)` / `_rust.<Class>.<staticmethod>(...)` in the package names a class or function "
    "that the module registers, and passes a number of positional arguments and a set of keywords that its Rust signature "
    "accepts, and (R22.5) wherever the kind of an argument is visible in its spelling - a literal, int(...), list(...), an f-string - it is a kind pyo3 "
    "can extract into the parameter's Rust type (a str for a Vec, a list for a String, None for a non-Option are TypeErrors); R22.2 COVER every registered layer class defines the methods the generic translator calls unconditionally on "
    "`self._rust` (read from dask_array/_frisky/base.py: to_dask_graph, to_task_records), and every class a wrapper builds in "
    "__init__ is stored in `self._rust`; R22.3 COVER every registered layer class has a Python wrapper that constructs it "
    "(an unreachable Rust layer is dead code, reported as a note, not a finding) and the wrapper's class is a subclass of the "
    "generic Layer or provides the three converters itself. The build-generation constant (46 = 46 today) is recorded but not "
    "judged: a mismatch makes the import fail, which the walk treats as a decline, i.e. the property holds."
)
ASSUMPTIONS = [
    "pyo3 (0.29 as pinned in Cargo.toml) maps a Rust fn's parameters to Python parameters in order, `Python<'_>` tokens and receivers excluded; a parameter - `Option<T>` included - is optional only through an explicit #[pyo3(signature)] default",
    "the crate is built from the sources analysed (the build-generation guard of dask_array/_frisky/base.py)",
]
TRUSTED = ["CPython ast", "sa.rustiface (pyo3-subset reader: brace matching after blanking comments/strings)"]

RUST_SRC = os.path.join("crates", "dask-array-python", "src")


def _iface(ctx):
    root = ctx.repo.root
    return ctx.cached("rust-iface", lambda: RustInterface(os.path.join(root, RUST_SRC)))


def _rust_calls(ctx):
    """[(FuncInfo, call node, class-or-function name, staticmethod name or None)] for calls through the name `_rust`."""
    out = []
    for m in ctx.repo.units:
        if ".tests" in m.name:
            continue
        for f in m.functions.values():
            if f.parent is not None:
                continue
            for n in ast.walk(f.node):
                if not isinstance(n, ast.Call):
                    continue
                fn = n.func
                if isinstance(fn, ast.Attribute) and isinstance(fn.value, ast.Name) and fn.value.id == "_rust":
                    out.append((f, n, fn.attr, None))
                elif isinstance(fn, ast.Attribute) and isinstance(fn.value, ast.Attribute) and isinstance(fn.value.value, ast.Name) and fn.value.value.id == "_rust":
                    out.append((f, n, fn.value.attr, fn.attr))
    return out


def _check_call(ctx, rr, f, call, target, c, what):
    pos = [a for a in call.args if not isinstance(a, ast.Starred)]
    star = any(isinstance(a, ast.Starred) for a in call.args)
    kws = [k.arg for k in call.keywords if k.arg is not None]
    dstar = any(k.arg is None for k in call.keywords)
    npos, nreq = len(target.positional), len(target.required_positional)
    rr.inst(c, rust=f"{target.file}:{target.line}", params=[p.name + ("=?" if p.optional else "") for p in target.params], passed_positional=len(pos), passed_keywords=kws, starred=star or dstar)
    if star or dstar:
        rr.notes.append(f"{c}: starred arguments - arity not decided")
        return
    if len(pos) > npos and not target.has_varargs:
        ctx.finding(rr, c, f"{what} is called with {len(pos)} positional arguments but the Rust side ({target.file}:{target.line}) takes {npos} ({[p.name for p in target.positional]}): with the extension built this call raises TypeError, so no native layer exists for this kind of expression", func=f, node=call)
        return
    bound = {p.name for p in target.positional[: len(pos)]}
    for k in kws:
        if k not in target.names and not target.has_kwargs:
            ctx.finding(rr, c, f"{what} is called with keyword {k!r}, which the Rust signature does not have ({sorted(target.names)})", func=f, node=call)
        elif k in bound:
            ctx.finding(rr, c, f"{what} receives {k!r} both positionally and by keyword", func=f, node=call)
    missing = [p.name for p in target.params if p.kind == "normal" and not p.optional and p.name not in bound and p.name not in kws]
    if missing:
        ctx.finding(rr, c, f"{what} is called without {missing}, which the Rust side ({target.file}:{target.line}) requires: with the extension built this call raises TypeError", func=f, node=call)
    del nreq


def _py_kind(e):
    """Syntactic kind of a Python argument expression, or None when it cannot be told from the spelling."""
    if isinstance(e, ast.Constant):
        v = e.value
        return "none" if v is None else "bool" if isinstance(v, bool) else "int" if isinstance(v, int) else "float" if isinstance(v, float) else "str" if isinstance(v, str) else None
    if isinstance(e, ast.JoinedStr):
        return "str"
    if isinstance(e, (ast.List, ast.Tuple, ast.ListComp, ast.GeneratorExp)):
        return "seq"
    if isinstance(e, (ast.Dict, ast.DictComp)):
        return "dict"
    if isinstance(e, ast.Call) and isinstance(e.func, ast.Name):
        return {"int": "int", "float": "float", "bool": "bool", "str": "str", "list": "seq", "tuple": "seq", "sorted": "seq", "dict": "dict", "len": "int"}.get(e.func.id)
    return None


def r22_5(ctx):
    rr = RuleResult("R22.5", "COVER", "where an argument's kind is visible in its spelling (a literal, int(...), list(...), an f-string, ...) it is a kind pyo3 can extract into the Rust parameter's type", min_instances=30)
    ri = _iface(ctx)
    for f, call, name, static in _rust_calls(ctx):
        target, _rc = ri.callable_for(name)
        if static is not None:
            rcls = ri.classes.get(name)
            target = rcls.methods.get(static) if rcls else None
        if target is None or any(isinstance(a, ast.Starred) for a in call.args):
            continue
        pairs = list(zip(target.positional, call.args)) + [(p, k.value) for k in call.keywords for p in target.params if p.name == k.arg]
        for p, a in pairs:
            kind, acc = _py_kind(a), p.accepts
            if kind is None or acc is None:
                continue
            c = f"{f.construct}::_rust.{name}{'.' + static if static else ''}(...)::{p.name}"
            rr.inst(c, python_kind=kind, rust_type=p.rust_type)
            if kind not in acc:
                ctx.finding(rr, c, f"{unparse(a)[:60]} (a {kind}) is passed for `{p.name}: {p.rust_type}`: pyo3 cannot extract it, so the constructor raises TypeError wherever the extension is built", func=f, node=call)
    return rr


def r22_1(ctx):
    rr = RuleResult("R22.1", "COVER", "every call into the native module names something the module registers and matches its Rust signature (positional count, keywords, required parameters)", min_instances=25)
    ri = _iface(ctx)
    calls = _rust_calls(ctx)
    need(len(calls) >= 25, "calls through `_rust` in the package")
    for f, call, name, static in calls:
        c = f"{f.construct}::_rust.{name}{'.' + static if static else ''}(...)"
        target, rc = ri.callable_for(name)
        if static is not None:
            rcls = ri.classes.get(name)
            if rcls is None or rcls.rust_name not in ri.registered_classes:
                rr.inst(c, registered=False)
                ctx.finding(rr, c, f"_rust.{name} is not a class the native module registers", func=f, node=call)
                continue
            m = rcls.methods.get(static)
            if m is None:
                rr.inst(c, method=None)
                ctx.finding(rr, c, f"the Rust class {name} has no method {static} ({sorted(rcls.methods)})", func=f, node=call)
                continue
            _check_call(ctx, rr, f, call, m, c, f"_rust.{name}.{static}")
            continue
        if target is None:
            exists = name in ri.classes or name in ri.functions
            rr.inst(c, registered=False)
            ctx.finding(rr, c, f"_rust.{name} is {'defined in the crate but not registered in its #[pymodule]' if exists else 'not defined by the crate'}: with the extension built this is an AttributeError{'' if rc is None else ''}", func=f, node=call)
            continue
        _check_call(ctx, rr, f, call, target, c, f"_rust.{name}")
    return rr


def r22_2(ctx):
    rr = RuleResult("R22.2", "COVER", "every registered Rust layer class defines the methods the generic translator calls on self._rust, and every wrapper stores what it builds in self._rust", min_instances=30)
    ri = _iface(ctx)
    base = ctx.repo.mod("dask_array._frisky.base")
    layer = base.cls("Layer")
    wanted, optional = set(), set()
    for f in layer.methods.values():
        for n in ast.walk(f.node):
            if isinstance(n, ast.Call) and isinstance(n.func, ast.Attribute) and unparse(n.func.value) == "self._rust":
                wanted.add(n.func.attr)
            if isinstance(n, ast.Call) and dotted(n.func) == "getattr" and len(n.args) >= 2 and unparse(n.args[0]) == "self._rust" and isinstance(n.args[1], ast.Constant):
                (optional if len(n.args) >= 3 else wanted).add(n.args[1].value)
    need(wanted, "methods that dask_array/_frisky/base.py::Layer calls on self._rust")
    for name, rc in sorted(ri.classes.items()):
        if rc.rust_name not in ri.registered_classes:
            continue
        c = f"{rc.file}::{rc.rust_name}"
        have = set(rc.methods)
        rr.inst(c, methods=sorted(have), required=sorted(wanted), optional=sorted(optional & have))
        for w in sorted(wanted - have):
            ctx.finding(rr, c + f"::{w}", f"the Rust class {rc.rust_name} has no #[pymethods] fn {w}, which Layer.{w}() calls unconditionally on self._rust: AttributeError for every expression lowered through this layer", file=os.path.join(ctx.repo.root, rc.file), line=rc.line)
        for w in sorted(wanted & have):
            m = rc.methods[w]
            if m.required_positional:
                ctx.finding(rr, c + f"::{w}", f"{rc.rust_name}.{w} requires arguments {[p.name for p in m.required_positional]} but the generic translator calls it with none", file=os.path.join(ctx.repo.root, rc.file), line=m.line)
    # wrappers: the object built from _rust.<Class>(...) in __init__ is what self._rust holds
    for f, call, name, static in _rust_calls(ctx):
        if f.cls is None or name not in ri.classes:
            continue
        if ctx.repo.is_subclass(f.cls, "Layer") and f.name == "__init__":
            c = f"{f.construct}::self._rust"
            stored = any(isinstance(s, ast.Assign) and any(unparse(t) == "self._rust" for t in s.targets) and any(x is call for x in ast.walk(s.value)) for s in body_walk(f.node))
            rr.inst(c, stored=stored, cls=name)
            if not stored:
                ctx.finding(rr, c, f"{f.cls.name}.__init__ builds _rust.{name}(...) but does not store it in self._rust, which the generic converters read", func=f, node=call)
    return rr


def r22_3(ctx):
    rr = RuleResult("R22.3", "COVER", "interface inventory: registered Rust classes and the wrappers that build them; build-generation constants recorded", min_instances=25)
    ri = _iface(ctx)
    built = {}
    for f, call, name, static in _rust_calls(ctx):
        built.setdefault(name, []).append(f.construct)
    for name, rc in sorted(ri.classes.items()):
        reg = rc.rust_name in ri.registered_classes
        rr.inst(f"{rc.file}::{rc.rust_name}", registered=reg, built_by=sorted(set(built.get(name, [])))[:3])
        if reg and name not in built:
            rr.notes.append(f"{rc.rust_name} is registered but no Python wrapper builds it (dead native layer)")
        if not reg and name in built:
            pass  # reported by R22.1 at the call site
    base = ctx.repo.mod("dask_array._frisky.base")
    py_gen = base.assigns.get("_NATIVE_BUILD_GENERATION")
    rr.inst("build-generation", python=(const_value(py_gen) if py_gen is not None else None), rust=ri.constants.get("NATIVE_BUILD_GENERATION"), judged=False)
    return rr


def _py_signature(fnode, drop_self):
    """(positional names, required positional count, keyword-only names, required keyword-only, has *args, has **kw)."""
    a = fnode.args
    pos = [x.arg for x in a.posonlyargs + a.args]
    if drop_self and pos:
        pos = pos[1:]
    nreq = len(pos) - len(a.defaults)
    kwonly = [x.arg for x in a.kwonlyargs]
    kwreq = [x.arg for x, d in zip(a.kwonlyargs, a.kw_defaults) if d is None]
    return pos, max(nreq, 0), kwonly, kwreq, a.vararg is not None, a.kwarg is not None


def r22_4(ctx):
    rr = RuleResult(
        "R22.4", "COVER",
        "every call of a class or function defined in dask_array/_frisky (the wrappers of the native layers: code the baseline suite never executes, because importing them needs the extension) matches the callee's Python signature",
        min_instances=40,
    )
    repo = ctx.repo
    n = 0
    for m in repo.units:
        if ".tests" in m.name:
            continue
        for f in m.functions.values():
            if f.parent is not None:
                continue
            for call in ast.walk(f.node):
                if not isinstance(call, ast.Call) or not isinstance(call.func, (ast.Name, ast.Attribute)):
                    continue
                try:
                    r = repo.resolve_expr(call.func, m, f)
                except Exception:
                    r = None
                if not r or r[0] not in ("class", "func"):
                    continue
                if r[0] == "class":
                    ci = r[1]
                    if not ci.module.name.startswith("dask_array._frisky"):
                        continue
                    hit = repo.class_attr(ci, "__init__")
                    if not hit or not hasattr(hit[1], "node"):
                        continue
                    target, drop_self, what = hit[1], True, f"{ci.name}(...)"
                else:
                    target = r[1]
                    if not target.module.name.startswith("dask_array._frisky") or target.cls is not None and not (isinstance(call.func, ast.Attribute) and target.kind in ("staticmethod", "classmethod")):
                        continue
                    drop_self, what = target.kind == "classmethod", f"{target.qualname}(...)"
                pos, nreq, kwonly, kwreq, has_va, has_kw = _py_signature(target.node, drop_self)
                args = [a for a in call.args if not isinstance(a, ast.Starred)]
                star = any(isinstance(a, ast.Starred) for a in call.args) or any(k.arg is None for k in call.keywords)
                kws = [k.arg for k in call.keywords if k.arg is not None]
                n += 1
                c = f"{f.construct}::{what}"
                rr.inst(c, callee=target.construct, positional=len(args), keywords=kws, starred=star)
                if star:
                    continue
                if len(args) > len(pos) and not has_va:
                    ctx.finding(rr, c, f"{what} is called with {len(args)} positional arguments but {target.qualname} takes {len(pos)} ({pos}): TypeError wherever the native extension is built (the baseline suite never runs this call)", func=f, node=call)
                    continue
                bound = set(pos[: len(args)])
                for k in kws:
                    if k not in pos and k not in kwonly and not has_kw:
                        ctx.finding(rr, c, f"{what} is called with keyword {k!r}, which {target.qualname} does not accept", func=f, node=call)
                    elif k in bound:
                        ctx.finding(rr, c, f"{what} receives {k!r} both positionally and by keyword", func=f, node=call)
                missing = [p for p in pos[:nreq] if p not in bound and p not in kws] + [k for k in kwreq if k not in kws]
                if missing:
                    ctx.finding(rr, c, f"{what} is called without {missing}, which {target.qualname} requires: TypeError wherever the native extension is built (the baseline suite never runs this call)", func=f, node=call)
    need(n >= 40, "resolved calls into dask_array/_frisky")
    return rr


RULES = [r22_1, r22_2, r22_3, r22_4, r22_5]

LEVEL_TEXT = (
    "Static decision of one structural clause of C22: the interface between the Python wrappers (dask_array/_frisky) and the Rust "
    "layers (crates/dask-array-python/src) agrees - every `_rust.<Name>(...)` call names a registered class or function and passes "
    "arguments its Rust signature accepts (count, keywords, required parameters; #[pyo3(signature)] honoured), every registered "
    "layer class has the methods the generic translator calls on self._rust, every wrapper stores the object it builds there. "
    "The Rust side is read by a purpose-built reader for the pyo3 subset the crate uses. Parity of the emitted graphs with the "
    "Python layers - the body of C22 - is semantic equivalence across two languages and is not decided."
)
LEVEL_NOTE = "Trusted: CPython ast and the pyo3-subset reader (sa/rustiface.py). The extension is not built here, so the suite cannot see an interface mismatch; that is why this clause is worth deciding statically."
TECHNIQUE = "static analysis: cross-language interface agreement (Python call sites via ast vs pyo3 signatures read from the Rust sources), registry coverage"

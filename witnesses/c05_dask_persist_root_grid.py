"""Witness for the known finding C05 R05.10: dask.persist(x) of a collection whose root is optimized onto another block grid.
Exit 1 while the defect is present (ValueError from from_graph), 0 once dask.persist agrees with x.persist()."""
import sys

import numpy as np

import dask
import dask_array as da

n = np.arange(12.0)
t = da.take(da.from_array(n, chunks=3) + da.from_array(n, chunks=1), [3, 0, 7])
a = np.arange(35.0).reshape(5, 7)
s = da.sliding_window_view(da.from_array(a, chunks=(2, 3)), 3, axis=-1).sum(axis=-1)
bad = 0
for name, d in (("take(x + y)", t), ("sliding-window sum", s)):
    want = d.persist().compute()
    try:
        got = dask.persist(d)[0].compute()
        if not np.allclose(got, want):
            bad += 1
            print(name, "differs")
    except Exception as e:  # noqa: BLE001
        bad += 1
        print(name, type(e).__name__, str(e)[:90])
sys.exit(1 if bad else 0)

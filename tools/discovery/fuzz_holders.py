import numpy as np, random, warnings, sys, traceback
warnings.simplefilter("ignore")
import dask_array as da
seed=int(sys.argv[1]) if len(sys.argv)>1 else 0
random.seed(seed)
def rch(shape):
    return tuple(random.choice([1,2,3,4,max(1,s)]) for s in shape)
def leaf():
    shape = random.choice([(6,8),(5,7),(4,6,5),(12,)])
    arr = np.arange(float(np.prod(shape))).reshape(shape) % 17 - 5
    return da.from_array(arr, chunks=rch(shape)), arr
def ridx(shape):
    out=[]
    for s in shape:
        k=random.random()
        if k<0.45: out.append(slice(None))
        elif k<0.6 and s>0: out.append(random.randrange(-s, s))
        else:
            a_=random.choice([None,0,1,2,-1,-3]); b_=random.choice([None,s,s-1,-1,3,s+2]); st=random.choice([None,None,1,2,-1,-2])
            out.append(slice(a_,b_,st))
    if random.random()<0.2: out.insert(random.randrange(len(out)+1), None)
    return tuple(out)
def step(d, n):
    k = random.choice(["idx","idx","rechunk","T","sum","mean","elem","elem2","cumsum","concat","stack","expand","squeeze","flip","max","where","bcast","reshape","take","roll","astype","abs","std","argmax","diff","moveaxis","clip","pad","repeat","mapblocks","mapblocks_chunks","overlap","matmul","swsum","nansum","cumprod","topk","var","tile","rot","tri","blocks","dotself","einsum","coarsen"])
    nd = n.ndim
    if k=="idx" and nd: 
        i=ridx(n.shape); return d[i], n[i]
    if k=="rechunk" and nd and 0 not in n.shape: return d.rechunk(rch(n.shape)), n
    if k=="T" and nd>=2:
        ax=list(range(nd)); random.shuffle(ax); return d.transpose(ax), n.transpose(ax)
    if k in ("sum","mean","max","std") and nd and n.size:
        ax=random.choice([None]+list(range(nd))+([tuple(range(min(2,nd)))] if nd>=2 else [])); kd=random.random()<0.3
        se = random.choice([None,2,3])
        return getattr(d,k)(axis=ax, keepdims=kd, split_every=se), getattr(n,k)(axis=ax, keepdims=kd)
    if k=="argmax" and nd and n.size:
        ax=random.randrange(nd); return d.argmax(axis=ax), n.argmax(axis=ax)
    if k=="elem": return d*2+1, n*2+1
    if k=="elem2": return d + d[...], n + n
    if k=="abs": return abs(d), abs(n)
    if k=="clip": return da.clip(d, -1, 5), np.clip(n, -1, 5)
    if k=="astype": return d.astype("f4"), n.astype("f4")
    if k=="cumsum" and nd and n.size:
        ax=random.randrange(nd); return d.cumsum(axis=ax), n.cumsum(axis=ax)
    if k=="diff" and nd and all(s>1 for s in n.shape):
        ax=random.randrange(nd); return da.diff(d, axis=ax), np.diff(n, axis=ax)
    if k=="concat" and nd:
        ax=random.randrange(nd); return da.concatenate([d, d+1], axis=ax), np.concatenate([n, n+1], axis=ax)
    if k=="stack" and nd<3:
        ax=random.randrange(nd+1); return da.stack([d, d*2], axis=ax), np.stack([n, n*2], axis=ax)
    if k=="expand" and nd<3:
        ax=random.randrange(nd+1); return da.expand_dims(d, ax), np.expand_dims(n, ax)
    if k=="squeeze" and 1 in n.shape: return d.squeeze(), n.squeeze()
    if k=="flip" and nd:
        ax=random.randrange(nd); return da.flip(d, ax), np.flip(n, ax)
    if k=="roll" and nd and n.size:
        ax=random.randrange(nd); sh=random.choice([1,-2,3]); return da.roll(d, sh, axis=ax), np.roll(n, sh, axis=ax)
    if k=="where": return da.where(d>2, d, -d), np.where(n>2, n, -n)
    if k=="bcast" and nd>=1 and n.shape[-1]>0:
        v=np.arange(float(n.shape[-1])); return d + da.from_array(v, chunks=random.choice([1,2,max(1,len(v))])), n+v
    if k=="reshape" and nd>=2 and n.size and 0 not in n.shape:
        return d.reshape(-1), n.reshape(-1)
    if k=="take" and nd and n.shape[0]>1:
        ix=[random.randrange(n.shape[0]) for _ in range(3)]; return da.take(d, ix, axis=0), np.take(n, ix, axis=0)
    if k=="moveaxis" and nd>=2: return da.moveaxis(d, 0, -1), np.moveaxis(n, 0, -1)
    if k=="pad" and nd and n.size: 
        pw=[(random.randrange(2), random.randrange(2)) for _ in range(nd)]; return da.pad(d, pw), np.pad(n, pw)
    if k=="repeat" and nd and n.size:
        ax=random.randrange(nd); return da.repeat(d, 2, axis=ax), np.repeat(n, 2, axis=ax)
    if k=="mapblocks": return d.map_blocks(lambda b: b*2+1, dtype=n.dtype), n*2+1
    if k=="mapblocks_chunks" and nd and n.size and 0 not in n.shape:
        return d.map_blocks(lambda b: np.repeat(b, 2, axis=-1), chunks=d.chunks[:-1]+(tuple(c*2 for c in d.chunks[-1]),), dtype=n.dtype), np.repeat(n, 2, axis=-1)
    if k=="overlap" and nd and all(s>=3 for s in n.shape) and all(min(c)>=2 for c in d.chunks):
        f=lambda b: b + np.roll(b, 1, axis=-1)
        return da.map_overlap(f, d, depth={nd-1:1}, boundary="periodic", dtype=n.dtype), n + np.roll(n, 1, axis=-1)
    if k=="matmul" and nd==2 and n.size: return d @ d.T, n @ n.T
    if k=="dotself" and nd==1 and n.size: return da.dot(d, d), np.dot(n, n)
    if k=="swsum" and nd and n.shape[-1]>=3:
        return da.sliding_window_view(d, 3, axis=-1).sum(axis=-1), np.lib.stride_tricks.sliding_window_view(n, 3, axis=-1).sum(axis=-1)
    if k=="nansum" and nd and n.size:
        ax=random.randrange(nd); return da.nansum(d, axis=ax), np.nansum(n, axis=ax)
    if k=="cumprod" and nd and n.size:
        ax=random.randrange(nd); return da.clip(d, -1.5, 1.5).cumprod(axis=ax), np.clip(n, -1.5, 1.5).cumprod(axis=ax)
    if k=="topk" and nd and n.shape[-1]>=2: return da.topk(d, 2, axis=-1), -np.sort(-n, axis=-1)[..., :2]
    if k=="var" and nd and n.size:
        ax=random.randrange(nd); return d.var(axis=ax), n.var(axis=ax)
    if k=="tile" and nd and n.size: return da.tile(d, 2), np.tile(n, 2)
    if k=="rot" and nd>=2: return da.rot90(d), np.rot90(n)
    if k=="tri" and nd==2: return da.tril(d), np.tril(n)
    if k=="blocks" and nd and n.size and 0 not in n.shape:
        i = tuple(random.randrange(nb) for nb in d.numblocks)
        sl = tuple(slice(sum(c[:j]), sum(c[:j+1])) for c, j in zip(d.chunks, i))
        return d.blocks[i], n[sl]
    if k=="einsum" and nd==2 and n.size: return da.einsum("ij,kj->ik", d, d), np.einsum("ij,kj->ik", n, n)
    if k=="coarsen" and nd and all(s%2==0 and s>0 for s in n.shape) and all(c%2==0 for ch in d.chunks for c in ch):
        return da.coarsen(np.sum, d, {i:2 for i in range(nd)}), n.reshape(*[x for s_ in n.shape for x in (s_//2,2)]).sum(axis=tuple(range(1,2*nd,2)))
    return d, n
bad=0; cases=0
for p in range(int(sys.argv[2]) if len(sys.argv)>2 else 300):
    d, n = leaf(); hist=[]
    try:
        for s in range(random.randint(2,6)):
            st=random.getstate()
            try:
                d2, n2 = step(d, n)
            except (ValueError, NotImplementedError, IndexError, TypeError, ZeroDivisionError) as e:
                # construction refused: acceptable only if numpy also fails or op unsupported; skip step
                continue
            d, n = d2, n2
            hist.append((getattr(d,'name','?')[:20], tuple(np.shape(n))))
        for _k in random.sample(['repeat','blocks','mapblocks_chunks','tile','pad','coarsen'],2):
            _st=random.getstate()
            try:
                # call step until it picks the wanted op
                for _t in range(60):
                    d2,n2=step(d,n)
                    if getattr(d2,'name','').split('-')[0] in ('repeat','blocks','lambda','tile','pad','concatenate','coarsen','getitem'): d,n=d2,n2; hist.append(('holder',getattr(d,'name','?')[:14],tuple(np.shape(n)))); break
            except (ValueError, NotImplementedError, IndexError, TypeError, ZeroDivisionError): pass
        for _x in range(random.randint(0,2)):
            try: d,n=step(d,n)
            except (ValueError, NotImplementedError, IndexError, TypeError, ZeroDivisionError): pass
        got = d.compute(); cases+=1
        if False:
            import dask as _dask
            alts = {"persist": lambda: d.persist().compute(), "dask.compute": lambda: _dask.compute(d)[0], "dask.optimize": lambda: _dask.optimize(d)[0].compute(),
                    "x.optimize": lambda: d.optimize().compute() if hasattr(d, "optimize") else got, "persist+1": lambda: (d.persist()+1).compute()-1,
                    "dask.persist": lambda: _dask.persist(d)[0].compute(), "copy": lambda: d.copy().compute(),
                    "to_delayed": lambda: (np.block(_dask.compute(d.to_delayed().tolist())[0]) if d.ndim and 0 not in np.shape(got) else got),
                    "compute-twice": lambda: (d.compute(), d.compute())[1], "pickle": lambda: __import__("pickle").loads(__import__("pickle").dumps(d)).compute()}
            for nm, f in alts.items():
                try:
                    g2 = f()
                    if np.shape(g2)!=np.shape(got) or not np.allclose(g2, got, equal_nan=True):
                        bad+=1; print("ENTRYPOINT-MISMATCH seed", seed, "prog", p, nm, hist)
                except Exception as e2:
                    if nm in ("dask.persist",) and "from_graph cannot find output block" in str(e2): continue  # known finding C05 R05.10
                    bad+=1; print("ENTRYPOINT-RAISE seed", seed, "prog", p, nm, type(e2).__name__, str(e2)[:100], hist)
        ok = np.shape(got)==np.shape(n) and np.allclose(got, n, equal_nan=True) and (not hasattr(d,'chunks') or tuple(sum(c) for c in d.chunks)==np.shape(n))
        if not ok:
            bad+=1; print("MISMATCH seed", seed, "prog", p, hist, np.shape(got), np.shape(n))
    except Exception as e:
        bad+=1; print("RAISE seed", seed, "prog", p, type(e).__name__, str(e)[:120], hist)
print("cases", cases, "bad", bad)

"""Witness for R03.15 (repaired in /repo): a per-block literal holder (repeat's one-block pieces) over a node that a rewrite
of the same simplify pass has just created.  Exit 0 when every program equals NumPy's result."""
import sys
import warnings

import numpy as np

import dask_array as da

warnings.simplefilter("ignore")
arr = np.arange(12.0) % 17 - 5
n = np.diff(arr)
bad = 0


def chk(lbl, f, w):
    global bad
    try:
        if not np.allclose(f().compute(), w):
            bad += 1
            print(lbl, "differs")
    except Exception as e:  # noqa: BLE001
        bad += 1
        print(lbl, type(e).__name__, str(e)[:80])


for ch in (4, 3, 2):
    d = lambda: da.from_array(arr, chunks=ch)  # noqa: E731
    chk(f"repeat of a 2-d difference {ch}", lambda: da.repeat((d()[1:] - d()[:-1])[:, None], 2, axis=0), np.repeat(n[:, None], 2, axis=0))
    chk(f"repeat of stacked differences {ch}", lambda: da.repeat(da.stack([da.diff(d()), da.diff(d()) * 2], axis=1), 2, axis=0), np.repeat(np.stack([n, n * 2], axis=1), 2, axis=0))
    chk(f"repeat of a concatenation {ch}", lambda: da.repeat(da.concatenate([(d()[1:] - d()[:-1])[:, None], d()[1:][:, None]], axis=1), 2, axis=0), np.repeat(np.stack([n, arr[1:]], axis=1), 2, axis=0))
    chk(f"var of the repeat {ch}", lambda: da.repeat(da.stack([da.diff(d()), da.diff(d()) * 2], axis=1), 2, axis=0).var(axis=1), np.repeat(np.stack([n, n * 2], axis=1), 2, axis=0).var(axis=1))
sys.exit(1 if bad else 0)

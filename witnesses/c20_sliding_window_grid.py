"""Witness for the R20.5 / R20.6 defects (repaired in /repo bdd1d63, ae5df10): consumers that hold a per-block literal of a
sliding-window reduction's advertised grid.  Exit 0 when everything agrees with NumPy, 1 otherwise (ValueError before the repairs)."""
import itertools
import sys

import numpy as np

import dask_array as da

a = np.arange(35.0).reshape(5, 7)
want = np.lib.stride_tricks.sliding_window_view(a, 3, axis=-1).sum(axis=-1)
bad = 0
for ch in itertools.product([1, 2, 3, 5], [1, 2, 3, 4, 7]):
    def s():
        return da.sliding_window_view(da.from_array(a, chunks=ch), 3, axis=-1).sum(axis=-1)

    cases = {
        "map_blocks(chunks=)": (lambda x: x.map_blocks(lambda b: np.repeat(b, 2, axis=-1), chunks=x.chunks[:-1] + (tuple(c * 2 for c in x.chunks[-1]),), dtype=float), np.repeat(want, 2, axis=-1)),
        "repeat": (lambda x: da.repeat(x + 1, 2, axis=1), np.repeat(want + 1, 2, axis=1)),
    }
    for name, (f, ref) in cases.items():
        try:
            if not np.allclose(f(s()).compute(), ref):
                bad += 1
                print(ch, name, "differs")
        except Exception as e:  # noqa: BLE001
            bad += 1
            print(ch, name, type(e).__name__, str(e)[:70])
    x = s()
    try:
        blk = x.blocks[(0,) * x.ndim].compute()
        if not np.allclose(blk, want[tuple(slice(0, c[0]) for c in x.chunks)]):
            bad += 1
            print(ch, ".blocks differs")
    except Exception as e:  # noqa: BLE001
        bad += 1
        print(ch, ".blocks", type(e).__name__, str(e)[:70])
sys.exit(1 if bad else 0)

"""Which ``_parameters`` of an expression class does its ``_name`` depend on?

``name_deps(repo, C)`` follows the resolved ``_name`` body: direct operand
reads (``self.p``, ``self.operand("p")``), ``self.operands`` /
``self._parameters`` (= all), ``self.deterministic_token`` (= the resolved
``__dask_tokenize__``; dask's default tokenizes the type and all operands),
``super()`` delegation, and properties referenced *directly* by the name or
tokenizer body (expanded recursively, except the derived-metadata properties in
NO_EXPAND - dtype, _meta, shape, ... - so coverage is never over-credited through
derivation chains such as dtype -> _meta -> <every operand>).
"""

from __future__ import annotations

import ast

from .model import ClassInfo, FuncInfo, Repo, const_value, unparse

ALL = "*"
TYPE = "<type>"
VARARGS = "<varargs>"
LOSSY_CALLS = frozenset({"len", "bool", "type", "min", "max", "sum", "any", "all", "set", "frozenset", "sorted", "hash", "iter", "next", "isinstance", "callable", "id"})
CONDITIONAL_PINS_SEEN: set = set()  # (class, member, operand) filled while analysing
# derived-metadata properties: reading them credits no operand (they are functions of
# structure the name must cover by itself)
NO_EXPAND = frozenset({"_meta", "dtype", "shape", "ndim", "numblocks", "size", "nbytes", "chunksize", "npartitions"})


def params_of(repo: Repo, c: ClassInfo):
    hit = repo.class_attr(c, "_parameters")
    if hit and not isinstance(hit[1], FuncInfo):
        return list(const_value(hit[1]) or [])
    return []


def _upstream(repo, c, member, seen, depth):
    if member == "deterministic_token":
        return member_reads(repo, c, "__dask_tokenize__", seen, depth)
    if member == "__dask_tokenize__":
        return {ALL, TYPE}
    if member == "_name":
        return member_reads(repo, c, "__dask_tokenize__", seen, depth) | {TYPE}
    if member in ("operands", "_parameters"):
        return {ALL}
    return set()


def member_reads(repo: Repo, c: ClassInfo, member: str, seen=frozenset(), depth=0):
    key = (c.fq, member)
    if key in seen:
        return set()
    seen = seen | {key}
    P = params_of(repo, c)
    hit = repo.class_attr(c, member)
    if hit is None:
        return {member} if member in P else set()
    owner, what = hit
    if not isinstance(what, FuncInfo):
        return {member} if member in P else set()
    if not owner.module.is_unit:
        return _upstream(repo, c, member, seen, depth)
    return body_reads(repo, c, what, owner, seen, depth)


def _super_target(repo, c, owner, attr):
    mro = repo.mro(c)
    try:
        i = mro.index(owner)
    except ValueError:
        return None
    for k in mro[i + 1 :]:
        if isinstance(k, str):
            continue
        if attr in k.methods:
            return k, k.methods[attr]
    return None


def body_reads(repo, c, f: FuncInfo, owner, seen, depth):
    """Operands the value produced by ``f`` *must* depend on: for a body with
    several producing statements (several ``return``s, or several assignments to
    ``self._determ_token`` in a tokenizer) the intersection over those
    statements of the reads in each statement's backward def-use slice."""
    from .dataflow import Defs

    from .model import body_walk

    producers = []
    for n in body_walk(f.node):
        if isinstance(n, ast.Return) and n.value is not None and unparse(n.value) != "self._determ_token":
            producers.append(n.value)
        elif isinstance(n, ast.Assign) and any(unparse(t) == "self._determ_token" for t in n.targets):
            producers.append(n.value)
    if len(producers) <= 1:
        return _reads_in(repo, c, [f.node], f, owner, seen, depth)
    defs = Defs(f.node)
    # intersection over producing statements, treating ALL as the universal set
    sets = []
    for p in producers:
        nodes = [p]
        seen_names = set()
        work = [p]
        while work:
            cur = work.pop()
            for nm in [x.id for x in ast.walk(cur) if isinstance(x, ast.Name)]:
                if nm in seen_names:
                    continue
                seen_names.add(nm)
                for v in defs.defs.get(nm, []) + defs.mutations(nm):
                    nodes.append(v)
                    work.append(v)
        sets.append(_reads_in(repo, c, nodes, f, owner, seen, depth))
    # a producer that is one operand verbatim (``return prefix`` with prefix = self.operand("_name_prefix"))
    # is a *conditional pin*: a user-supplied name.  It is recorded, not intersected.
    kept = []
    for p, x in zip(producers, sets):
        plain = isinstance(p, ast.Name) or (isinstance(p, ast.Call) and unparse(p.func) == "self.operand")
        concrete_reads = {y for y in x if not y.startswith("<")}
        if plain and len(concrete_reads) == 1 and ALL not in x:
            CONDITIONAL_PINS_SEEN.add((owner.name, f.name, next(iter(concrete_reads))))
            continue
        pins_here = {q for (cn, _m, q) in CONDITIONAL_PINS_SEEN if cn == owner.name}
        if concrete_reads and concrete_reads <= pins_here and ALL not in x:
            continue  # the token of the user-pinned branch
        if any(isinstance(y, ast.Call) and (unparse(y.func).startswith("uuid.")) for y in ast.walk(p)):
            x = x | {ALL}  # a fresh random token per instance cannot collide with another node's name
        kept.append(x)
    sets = kept or sets
    concrete = [x for x in sets if ALL not in x]
    if not concrete:
        return {ALL}
    out = set(concrete[0])
    for x in concrete[1:]:
        out &= x
    return out


def _reads_in(repo, c, roots_, f, owner, seen, depth):
    P = params_of(repo, c)
    out = set()
    allnodes = []
    for r in roots_:
        allnodes.extend(ast.walk(r))
    # ``self.operands[len(self._parameters):]`` = the variadic operands only, not all operands
    varargs_nodes = set()
    for n in allnodes:
        if isinstance(n, ast.Subscript) and unparse(n.value) == "self.operands" and isinstance(n.slice, ast.Slice):
            if n.slice.lower is not None and "len(self._parameters)" in unparse(n.slice.lower) and n.slice.upper is None:
                for sub in ast.walk(n):
                    varargs_nodes.add(id(sub))
    # operand reads inside a lossy wrapper (``len(self.p)``, ``sorted(self.p)``, ``bool(self.p)``,
    # ``type(self.p)`` ...) do not put the operand's content into the name
    lossy_nodes = set()
    for n in allnodes:
        if isinstance(n, ast.Call) and isinstance(n.func, ast.Name) and n.func.id in LOSSY_CALLS:
            if n.func.id == "sorted" and n.args and isinstance(n.args[0], ast.Call) and isinstance(n.args[0].func, ast.Attribute) and n.args[0].func.attr == "items":
                continue  # sorted(d.items()) keeps keys and values
            for a in n.args:
                for sub in ast.walk(a):
                    lossy_nodes.add(id(sub))
    for n in allnodes:
        # ``self.p.get("k")`` / ``self.p["k"]`` use one entry of the operand, not its content
        if isinstance(n, ast.Call) and isinstance(n.func, ast.Attribute) and n.func.attr in ("get", "pop") and unparse(n.func.value).startswith("self."):
            for sub in ast.walk(n.func.value):
                lossy_nodes.add(id(sub))
        if isinstance(n, ast.Subscript) and isinstance(n.slice, ast.Constant) and isinstance(n.slice.value, str) and unparse(n.value).startswith("self."):
            for sub in ast.walk(n.value):
                lossy_nodes.add(id(sub))
    for n in allnodes:
        if isinstance(n, ast.Compare) and any(isinstance(op, (ast.In, ast.NotIn)) for op in n.ops):
            # ``"name" in self._parameters`` is a membership test, not a use of every operand
            for cmp in n.comparators:
                if unparse(cmp) == "self._parameters":
                    varargs_nodes.add(-id(cmp))
    for n in allnodes:
        if isinstance(n, ast.Attribute) and isinstance(n.value, ast.Name) and n.value.id == "self" and isinstance(n.ctx, ast.Load):
            if -id(n) in varargs_nodes or id(n) in lossy_nodes:
                continue
            a = n.attr
            if a in ("operands", "_parameters"):
                if id(n) in varargs_nodes:
                    out.add(VARARGS)
                else:
                    out.add(ALL)
            elif a in ("_determ_token", "operand"):
                pass
            elif a == "deterministic_token":
                out |= member_reads(repo, c, "__dask_tokenize__", seen, depth)
            else:
                h = repo.class_attr(c, a)
                if h and isinstance(h[1], FuncInfo) and h[1].kind in ("property", "cached_property"):
                    if a in P:
                        # a property named after the operand it refines (``dtype``, ``_meta_provided``)
                        out.add(a)
                    if a not in NO_EXPAND:
                        out |= member_reads(repo, c, a, seen, depth + 1)
                elif a in P:
                    out.add(a)
        elif isinstance(n, ast.Call) and unparse(n.func) == "self.operand" and n.args and id(n) not in lossy_nodes:
            v = const_value(n.args[0])
            out.add(v if isinstance(v, str) else ALL)
        elif isinstance(n, ast.Call) and unparse(n.func) in ("type", "funcname") and n.args and unparse(n.args[0]) in ("self", "type(self)"):
            out.add(TYPE)
        # super().x / super().x()
        if isinstance(n, ast.Attribute) and isinstance(n.value, ast.Call) and unparse(n.value.func) == "super" and isinstance(n.ctx, ast.Load):
            tgt = _super_target(repo, c, owner, n.attr)
            if tgt:
                k, m = tgt
                if k.module.is_unit:
                    out |= body_reads(repo, c, m, k, seen, depth)
                else:
                    out |= _upstream(repo, c, n.attr, seen, depth)
    return out


def unparse_operand_alias(f: FuncInfo, name):
    rets = [n for n in ast.walk(f.node) if isinstance(n, ast.Return)]
    return len(rets) == 1 and unparse(rets[0].value) == f"self.operand('{name}')"


def name_deps(repo: Repo, c: ClassInfo):
    return member_reads(repo, c, "_name")


def token_deps(repo: Repo, c: ClassInfo):
    return member_reads(repo, c, "__dask_tokenize__")

import numpy as np, dask_array as da, warnings
warnings.simplefilter('ignore')
x = da.from_array(np.arange(40.0).reshape(4,10), chunks=(2,5))
y = da.sliding_window_view(x, 3, axis=1).sum(axis=-1)     # advertised chunks vs native chunks differ
print('advertised', y.chunks, ' optimized', y.expr.optimize().chunks)
ref = y.compute()
t = np.full(y.shape, -1.0)
da.store(y, t, lock=False)
print('store ok:', np.allclose(t, ref))
t2 = np.full((y.shape[0]+2, y.shape[1]+2), -1.0)
da.store(y, t2, regions=(slice(1,1+y.shape[0]), slice(1, 1+y.shape[1])), lock=False)
print('store region ok:', np.allclose(t2[1:-1,1:-1], ref), (t2[0]==-1).all())

import numpy as np, random, warnings, sys
warnings.simplefilter("ignore")
import dask_array as da
seed=int(sys.argv[1]) if len(sys.argv)>1 else 0
random.seed(seed); rs=np.random.RandomState(seed); bad=0
def rch(n): return random.choice([1,2,3,n,(n-1,1) if n>1 else n])
def post(r,want):
    if want.ndim==0 or 0 in want.shape: return r,want,'id'
    k=random.random()
    if k<0.35:
        idx=tuple(random.choice([slice(None), slice(1,None), slice(None,-1), slice(None,None,2), slice(None,None,-1), random.randrange(s), slice(1,2)]) for s in want.shape); return r[idx],want[idx],f'slice{idx}'
    if k<0.45:
        ax=random.randrange(want.ndim); ind=[random.randrange(want.shape[ax]) for _ in range(3)]; return da.take(r,ind,axis=ax),np.take(want,ind,axis=ax),f'take{ax}{ind}'
    if k<0.55: return r.T,want.T,'T'
    if k<0.65:
        ch=tuple(rch(s) for s in want.shape); return r.rechunk(ch),want,f'rechunk{ch}'
    if k<0.75:
        ax=random.randrange(want.ndim); return r.sum(axis=ax),want.sum(axis=ax),f'sum{ax}'
    if k<0.85: return r+1,want+1,'add1'
    return r,want,'id'
KINDS=['overlap_reflect','overlap_nearest','overlap_const','overlap_none','overlap_2arr','overlap_asym','overlap_trimF','fft','rfft','ifft','fft2','fftshift','qr','svd_vals','cholesky','solve','lstsq','inv','norm','tril_solve','lu','einsum3','matmul_bcast','cumsum_rev','diff_n','convolve?','pad_modes','meshgrid','indices','fromfunction','tri','histogramdd','corrcoef','percentile','unique_counts','argwhere','nonzero','flatnonzero','masked_take','bool_setitem','sliding_2d','rolling_mean','coarsen_mean','topk_neg','argtopk','shuffle?','ravel_multi','unravel','dot3','vdot_c','outer3','tensordot2','apply_gufunc','gufunc_sig','map_overlap_depth_dict']
for p in range(int(sys.argv[2]) if len(sys.argv)>2 else 200):
    n,m=random.choice([(6,8),(8,6),(9,5)])
    a=rs.randint(-5,9,size=(n,m)).astype(float)
    x=da.from_array(a,chunks=(random.choice([2,3,n]),random.choice([2,3,m])))
    kind=random.choice(KINDS); log=[kind,x.chunks]
    try:
        r=want=None
        if kind.startswith('overlap_') and kind not in('overlap_2arr',):
            f=lambda b: b+np.roll(b,1,axis=0)+np.roll(b,-1,axis=1)
            bmode={'overlap_reflect':'reflect','overlap_nearest':'nearest','overlap_const':0.0,'overlap_none':'none','overlap_asym':'reflect','overlap_trimF':'reflect'}[kind]
            depth={0:1,1:1}
            if kind=='overlap_asym': depth={0:(1,0),1:(0,1)}
            if min(min(c) for c in x.chunks)<2: continue
            padmode={'reflect':'symmetric','nearest':'edge'}
            if kind=='overlap_none':
                continue
            if kind=='overlap_trimF': continue
            r=da.map_overlap(f,x,depth=1,boundary=bmode,dtype=float)
            ap=np.pad(a,1,mode=padmode[bmode]) if bmode in padmode else np.pad(a,1,constant_values=bmode)
            want=f(ap)[1:-1,1:-1]
            if kind=='overlap_asym': continue
        elif kind=='overlap_2arr':
            if min(min(c) for c in x.chunks)<2: continue
            y=da.from_array(a*2,chunks=x.chunks)
            f=lambda p,q: p+np.roll(q,1,axis=1)
            r=da.map_overlap(f,x,y,depth=1,boundary='periodic',dtype=float); want=a+np.roll(a*2,1,axis=1)
        elif kind=='fft': xx=x.rechunk({1:-1}); r=da.fft.fft(xx,axis=1); want=np.fft.fft(a,axis=1)
        elif kind=='rfft': xx=x.rechunk({0:-1}); r=da.fft.rfft(xx,axis=0); want=np.fft.rfft(a,axis=0)
        elif kind=='ifft': xx=x.rechunk({1:-1}); r=da.fft.ifft(xx,axis=1); want=np.fft.ifft(a,axis=1)
        elif kind=='fft2': xx=x.rechunk(-1); r=da.fft.fft2(xx); want=np.fft.fft2(a)
        elif kind=='fftshift': r=da.fft.fftshift(x); want=np.fft.fftshift(a)
        elif kind=='qr':
            xx=x.rechunk({1:-1}) if n>=m else None
            if xx is None: continue
            q,rr=da.linalg.qr(xx); r=q@rr; want=a
        elif kind=='svd_vals':
            xx=x.rechunk({1:-1}) if n>=m else x.rechunk({0:-1}); u,s,v=da.linalg.svd(xx); r=s; want=np.linalg.svd(a,compute_uv=False)
        elif kind=='cholesky':
            s_=a@a.T+np.eye(n)*20; xs=da.from_array(s_,chunks=(random.choice([2,3]),)*2) if n%1==0 else None
            cs=random.choice([c for c in (2,3,n) if n%c==0]); xs=da.from_array(s_,chunks=(cs,cs)); r=da.linalg.cholesky(xs,lower=True); want=np.linalg.cholesky(s_)
        elif kind=='solve':
            s_=a@a.T+np.eye(n)*20; cs=random.choice([c for c in (2,3,n) if n%c==0]); b_=rs.rand(n); r=da.linalg.solve(da.from_array(s_,chunks=(cs,cs)),da.from_array(b_,chunks=cs)); want=np.linalg.solve(s_,b_)
        elif kind=='lstsq':
            if n<m: continue
            b_=rs.rand(n); r=da.linalg.lstsq(x.rechunk({1:-1}),da.from_array(b_,chunks=x.chunks[0]))[0]; want=np.linalg.lstsq(a,b_,rcond=None)[0]
        elif kind=='inv':
            s_=a@a.T+np.eye(n)*20; cs=random.choice([c for c in (2,3,n) if n%c==0]); r=da.linalg.inv(da.from_array(s_,chunks=(cs,cs))); want=np.linalg.inv(s_)
        elif kind=='norm': ax=random.choice([None,0,1]); r=da.linalg.norm(x,axis=ax); want=np.linalg.norm(a,axis=ax)
        elif kind=='lu':
            s_=a@a.T+np.eye(n)*20; cs=random.choice([c for c in (2,3,n) if n%c==0]); p_,l,u=da.linalg.lu(da.from_array(s_,chunks=(cs,cs))); r=p_@l@u; want=s_
        elif kind=='einsum3': y=da.from_array(a.T.copy(),chunks=(rch(m),rch(n))); r=da.einsum('ij,jk,kl->il',x,y,x); want=np.einsum('ij,jk,kl->il',a,a.T,a)
        elif kind=='matmul_bcast': b3=rs.rand(3,m,2); r=x@da.from_array(b3,chunks=(1,rch(m),1)); want=a@b3
        elif kind=='cumsum_rev': r=x[::-1].cumsum(axis=0)[::-1]; want=a[::-1].cumsum(axis=0)[::-1]
        elif kind=='diff_n': r=da.diff(x,n=2,axis=1); want=np.diff(a,n=2,axis=1)
        elif kind=='pad_modes':
            mode=random.choice(['reflect','symmetric','edge','wrap','linear_ramp','mean','maximum','constant']); pw=((1,2),(2,0))
            r=da.pad(x,pw,mode=mode); want=np.pad(a,pw,mode=mode); log.append(mode)
        elif kind=='meshgrid': g=da.meshgrid(da.arange(n,chunks=2),da.arange(m,chunks=3),indexing='ij'); r=g[0]*10+g[1]; ng=np.meshgrid(np.arange(n),np.arange(m),indexing='ij'); want=ng[0]*10+ng[1]
        elif kind=='indices': r=da.indices((n,m),chunks=(2,3))[1]; want=np.indices((n,m))[1]
        elif kind=='fromfunction': r=da.fromfunction(lambda i,j:i*10+j,shape=(n,m),chunks=(2,3),dtype=float); want=np.fromfunction(lambda i,j:i*10+j,(n,m))
        elif kind=='tri': r=da.tri(n,m,k=1,chunks=2); want=np.tri(n,m,k=1)
        elif kind=='histogramdd':
            r=da.histogramdd(x.rechunk({1:-1})[:, :2],bins=(3,3),range=((-6,10),(-6,10)))[0]; want=np.histogramdd(a[:, :2],bins=(3,3),range=((-6,10),(-6,10)))[0]
        elif kind=='corrcoef': r=da.corrcoef(x); want=np.corrcoef(a)
        elif kind=='percentile': continue
        elif kind=='unique_counts': u,c=da.unique(x,return_counts=True); r=c.compute_chunk_sizes() if False else None; ru,rc=np.unique(a,return_counts=True); got=np.asarray(c.compute()); 
        elif kind=='argwhere': r=None; got=da.argwhere(x>3).compute(); wantv=np.argwhere(a>3)
        elif kind=='masked_take': mk=a[:,0]>0; r=x[mk].sum(axis=0); want=a[mk].sum(axis=0)
        elif kind=='bool_setitem': x2=x.copy(); x2[x2>3]=0; r=x2; w=a.copy(); w[w>3]=0; want=w
        elif kind=='sliding_2d':
            if m<3 or n<3: continue
            r=da.sliding_window_view(x,(2,3)).sum(axis=(-1,-2)); want=np.lib.stride_tricks.sliding_window_view(a,(2,3)).sum(axis=(-1,-2))
        elif kind=='rolling_mean': r=da.sliding_window_view(x,3,axis=0).mean(axis=-1); want=np.lib.stride_tricks.sliding_window_view(a,3,axis=0).mean(axis=-1)
        elif kind=='coarsen_mean':
            if n%2 or m%2 or any(c%2 for ch in x.chunks for c in ch): continue
            r=da.coarsen(np.mean,x,{0:2,1:2}); want=a.reshape(n//2,2,m//2,2).mean(axis=(1,3))
        elif kind=='topk_neg': r=da.topk(x,-2,axis=0); want=np.sort(a,axis=0)[:2]
        elif kind=='argtopk': r=da.argtopk(x,2,axis=1); want=np.argsort(-a,axis=1,kind='stable')[:, :2]; 
        elif kind=='ravel_multi': continue
        elif kind=='dot3': v=rs.rand(m); r=da.dot(x,da.from_array(v,chunks=rch(m))); want=a@v
        elif kind=='outer3': r=da.outer(x,x[0]); want=np.outer(a,a[0])
        elif kind=='tensordot2': y=da.from_array(a,chunks=(rch(n),rch(m))); r=da.tensordot(x,y,axes=((0,1),(0,1))); want=np.tensordot(a,a,axes=((0,1),(0,1)))
        elif kind=='apply_gufunc': r=da.apply_gufunc(lambda v: v.sum(axis=-1),'(i)->()',x.rechunk({1:-1}),output_dtypes=float); want=a.sum(axis=-1)
        elif kind=='gufunc_sig': r=da.apply_gufunc(lambda u,v: np.einsum('...i,...i->...',u,v),'(i),(i)->()',x.rechunk({1:-1}),x.rechunk({1:-1}),output_dtypes=float); want=(a*a).sum(axis=-1)
        elif kind=='map_overlap_depth_dict':
            if min(x.chunks[1])<2: continue
            f=lambda b: b-np.roll(b,1,axis=1); r=da.map_overlap(f,x,depth={1:1},boundary={1:'periodic'},dtype=float); want=a-np.roll(a,1,axis=1)
        else: continue
        if r is None:
            continue
        if kind=='argtopk':
            # ties make indices ambiguous: compare values
            r=da.take_along_axis(x,r,axis=1) if hasattr(da,'take_along_axis') else None; want=-np.sort(-a,axis=1)[:, :2]
            if r is None: continue
        for _ in range(random.randint(0,2)):
            r,want,l=post(r,np.asarray(want)); log.append(l)
        g=r.compute()
        if np.shape(g)!=np.shape(want) or not np.allclose(g,want,equal_nan=True): bad+=1; print('MISMATCH',seed,p,log)
    except Exception as e:
        bad+=1; print('RAISE',seed,p,type(e).__name__,str(e)[:110],log)
print('bad',bad)

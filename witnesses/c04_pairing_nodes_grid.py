"""Witness for R04.12 (repaired in /repo): nodes that pair the blocks of several inputs by position (bincount / histogram
with weights, tsqr's stages, unique) or carry the input's grid as a literal (broadcast_to) over an input whose block grid a
rewrite would change (a sliding-window reduction advertises coarse chunks and fuses to native ones).  Exit 0 when every
program computes NumPy's result, 1 otherwise (before the repair: 'Missing dependency')."""
import sys
import warnings

import numpy as np

import dask_array as da

warnings.simplefilter("ignore")
bad = 0
a = np.arange(40)
x = da.from_array(a, chunks=8)
sw = np.lib.stride_tricks.sliding_window_view
ns = sw(a, 12, axis=0).sum(axis=-1)


def s():
    return da.sum(da.sliding_window_view(x, 12, axis=0), axis=-1)


def check(label, f, want):
    global bad
    try:
        got = f()
        if np.shape(got) != np.shape(want) or not np.allclose(got, want):
            bad += 1
            print(label, "differs")
    except Exception as e:  # noqa: BLE001
        bad += 1
        print(label, type(e).__name__, str(e)[:80])


w = np.linspace(1, 2, 29)
check("bincount weights", lambda: da.bincount(s(), weights=da.from_array(w, chunks=s().chunks), minlength=500).compute(), np.bincount(ns, weights=w, minlength=500))
check("histogram weights", lambda: da.histogram(s(), bins=5, range=(0, 600), weights=da.from_array(w, chunks=s().chunks))[0].compute(), np.histogram(ns, bins=5, range=(0, 600), weights=w)[0])
check("unique counts", lambda: da.unique(s() % 7, return_counts=True)[1].compute(), np.unique(ns % 7, return_counts=True)[1])
a2 = np.arange(40.0).reshape(20, 2)
s2 = lambda: da.sliding_window_view(da.from_array(a2, chunks=(3, 2)), window_shape=5, axis=0).sum(axis=-1)  # noqa: E731
n2 = sw(a2, 5, axis=0).sum(axis=-1)
check("broadcast_to", lambda: da.broadcast_to(s2(), (2, 16, 2)).compute(), np.broadcast_to(n2, (2, 16, 2)))
check("blockwise adjust_chunks tuple", lambda: da.blockwise(lambda b: np.repeat(b, 2), "i", s(), "i", dtype=s().dtype, adjust_chunks={"i": tuple(2 * c for c in s().chunks[0])}).compute(), np.repeat(ns, 2))
check("map_overlap two arrays", lambda: da.map_overlap(lambda p, q: p + np.roll(q, 1), s(), da.from_array(w, chunks=s().chunks), depth=1, boundary="periodic", dtype=float).compute(), ns + np.roll(w, 1))
check("bool rows of 2-d", lambda: s2()[da.from_array(np.arange(16) % 3 == 0, chunks=s2().chunks[0])].compute(), n2[np.arange(16) % 3 == 0])
check("compute_chunk_sizes", lambda: (lambda y: (y.compute_chunk_sizes(), y.compute())[1])(s()[s() > 100]), ns[ns > 100])
sr = lambda: da.sliding_window_view(da.from_array(np.arange(40.0), chunks=8), 25, axis=0).sum(axis=-1)  # noqa: E731
check("reshape of a one-block advertisement", lambda: sr().reshape(-1, 1).compute(), sw(np.arange(40.0), 25).sum(axis=-1).reshape(-1, 1))
check("mask of a rolling sum", lambda: (lambda d: d[d > 10].compute())(s()), ns[ns > 10])
check("tsqr R", lambda: abs(da.linalg.tsqr(s()[:, None].astype(float))[1].compute()), abs(np.linalg.qr(ns[:, None].astype(float))[1]))
sys.exit(1 if bad else 0)

import ast, os
ROOT='/repo/dask_array'
def params_of(cls):
    for n in cls.body:
        if isinstance(n,ast.Assign) and any(isinstance(t,ast.Name) and t.id=='_parameters' for t in n.targets):
            try: return ast.literal_eval(n.value)
            except Exception: return None
    return None
for dp,dn,fns in os.walk(ROOT):
    if '/tests' in dp: continue
    for f in fns:
        if not f.endswith('.py'): continue
        p=os.path.join(dp,f); t=ast.parse(open(p).read())
        for c in ast.walk(t):
            if not isinstance(c,ast.ClassDef): continue
            ps=params_of(c)
            for fn in c.body:
                if isinstance(fn,ast.FunctionDef) and fn.name in ('__dask_tokenize__','_name','_info'):
                    refs=set(); alls=False
                    for n in ast.walk(fn):
                        if isinstance(n,ast.Attribute) and isinstance(n.value,ast.Name) and n.value.id=='self':
                            refs.add(n.attr)
                        if isinstance(n,ast.Call) and isinstance(n.func,ast.Attribute) and n.func.attr=='operand' and n.args and isinstance(n.args[0],ast.Constant):
                            refs.add(n.args[0].value)
                    if 'operands' in refs or 'deterministic_token' in refs and fn.name=='_name': alls='operands' in refs
                    if fn.name=='_name' and 'deterministic_token' in refs and not any(isinstance(x,ast.FunctionDef) and x.name=='__dask_tokenize__' for x in c.body):
                        continue
                    missing=[q for q in (ps or []) if q not in refs] if not alls else []
                    print(f"{p.replace(ROOT+'/','')}:{c.name}.{fn.name} params={ps} allops={alls} missing={missing}")

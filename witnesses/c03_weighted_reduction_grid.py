"""Witness for R03.9 / R07.6 (Reduction._lower root), repaired in /repo 710f304: a weighted reduction whose weights are chunked
differently from x.  Exit 0 when consumers of the advertised grid compute and the graph does not depend on configuration history."""
import sys

import numpy as np

import dask
import dask_array as da
from dask_array.reductions import reduction


def chunk(x, w=None, axis=None, keepdims=False, **kw):
    return np.sum(x if w is None else x * w, axis=axis, keepdims=keepdims)


def agg(x, axis=None, keepdims=False, **kw):
    return np.sum(x, axis=axis, keepdims=keepdims)


A = np.arange(24.0).reshape(4, 6)
W = A * 0 + 2 + np.arange(6)
bad = 0
for ca, cw in (((2, 2), (4, 3)), ((1, 6), (4, 1)), ((4, 1), (2, 2))):
    r = reduction(da.from_array(A, chunks=ca), chunk, agg, axis=0, dtype=float, weights=da.from_array(W, chunks=cw))
    want = (A * W).sum(axis=0)
    try:
        assert np.allclose(da.repeat(r, 2).compute(), np.repeat(want, 2))
        assert r.blocks[0].compute().shape == (r.chunks[0][0],)
    except Exception as e:  # noqa: BLE001
        bad += 1
        print(ca, cw, type(e).__name__, str(e)[:80])


def build():
    a = da.from_array(np.arange(120.0), chunks=10)
    w = da.from_array(np.arange(120.0) + 1, chunks=20)
    return reduction(a, chunk, agg, dtype=float, weights=w)


with dask.config.set({"array.unify-chunks-policy": "refine"}):
    n1 = len(build().__dask_graph__())
with dask.config.set({"array.unify-chunks-policy": "coarse"}):
    n2 = len(build().__dask_graph__())
import subprocess

fresh = subprocess.run(
    [sys.executable, "-W", "ignore", "-c", "import sys; sys.argv=['x']; exec(open(%r).read().split('with dask.config.set')[0]); import dask\nwith dask.config.set({'array.unify-chunks-policy': 'coarse'}):\n    print(len(build().__dask_graph__()))" % __file__],
    capture_output=True, text=True,
).stdout.strip().splitlines()
if not fresh or int(fresh[-1]) != n2:
    bad += 1
    print("history dependence: after 'refine'", n2, "tasks; fresh process under 'coarse':", fresh[-1:] )
sys.exit(1 if bad else 0)

"""Positive fixture for R06.4 (never imported; parsed only): operand mutation patterns
that the matcher must recognise on every run."""


class _Node:
    def _simplify_down(self):
        self.operands[0] = None
        self.operands.append(1)
        self.operands = []
        return self


def rewrite(node, new):
    node.operands[1] = new
    return node

"""Static analysis engine for mrocklin/dask-array (see /verif/DESIGN.md).

Pure standard library.  Nothing here imports ``dask_array`` or executes any
function of the repository under analysis: every verdict is computed from
syntax trees, the class hierarchy and the call graph.
"""

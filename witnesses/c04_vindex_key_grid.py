"""Witness for R04.10 (repaired in /repo): point-wise indexing of an n-d array whose un-indexed axes have several chunks.
Exit 0 when x.vindex[...] equals NumPy's x[i0, i1] and the key list has the nesting of the block grid, 1 otherwise."""
import sys
import warnings

import numpy as np

import dask_array as da

warnings.simplefilter("ignore")
a = np.arange(120.0).reshape(4, 6, 5)
bad = 0
for ch in [(2, 3, 5), (1, 2, 2), (4, 6, 5), (2, 6, 1), (3, 4, 2)]:
    for i0, i1 in [([0, 3, 1], [5, 0, 2]), ([2, 2, 2], [1, 1, 1]), ([3, 0], [0, 5])]:
        x = da.from_array(a, chunks=ch)
        r = x.vindex[i0, i1]
        keys = r.__dask_keys__()
        depth = 0
        k = keys
        while isinstance(k, list):
            depth += 1
            k = k[0]
        try:
            if depth != r.ndim or not np.array_equal(r.compute(), a[i0, i1]) or not np.array_equal((r + 1).compute(), a[i0, i1] + 1):
                bad += 1
                print(ch, i0, i1, "differs / key nesting", depth)
        except Exception as e:  # noqa: BLE001
            bad += 1
            print(ch, i0, i1, type(e).__name__, str(e)[:80])
sys.exit(1 if bad else 0)

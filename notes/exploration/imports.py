import ast, os, sys
ROOT='/repo'
PKG='dask_array'
mods={}
for dp,dn,fns in os.walk(os.path.join(ROOT,PKG)):
    if '/tests' in dp: continue
    for f in fns:
        if f.endswith('.py'):
            p=os.path.join(dp,f)
            rel=os.path.relpath(p,ROOT)[:-3].replace('/','.')
            if rel.endswith('.__init__'): rel=rel[:-9]
            mods[rel]=p
def resolve(cur, node, ispkg):
    out=[]
    if isinstance(node, ast.Import):
        for a in node.names: out.append((a.name,None))
    else:
        base=node.module or ''
        if node.level:
            parts=cur.split('.')
            if not ispkg: parts=parts[:-1]
            parts=parts[:len(parts)-(node.level-1)]
            base='.'.join(parts+([node.module] if node.module else []))
        for a in node.names: out.append((base,a.name))
    return out
edges={}
for m,p in mods.items():
    tree=ast.parse(open(p).read())
    ispkg=p.endswith('__init__.py')
    top=[];deferred=[]
    def visit(n, infunc, typecheck):
        for c in ast.iter_child_nodes(n):
            if isinstance(c,(ast.Import,ast.ImportFrom)):
                (deferred if infunc else top).append((c,typecheck))
            elif isinstance(c,(ast.FunctionDef,ast.AsyncFunctionDef,ast.Lambda)):
                visit(c,True,typecheck)
            elif isinstance(c, ast.If) and 'TYPE_CHECKING' in ast.unparse(c.test):
                for b in c.body: visit(ast.Module(body=[b],type_ignores=[]),infunc,True)
                for b in c.orelse: visit(ast.Module(body=[b],type_ignores=[]),infunc,typecheck)
            else:
                visit(c,infunc,typecheck)
    visit(tree,False,False)
    es=set()
    for node,tc in top:
        if tc: continue
        for base,name in resolve(m,node,ispkg):
            cands=[base]
            if name: cands.append(base+'.'+name)
            for c in cands:
                # add package ancestors
                parts=c.split('.')
                for i in range(1,len(parts)+1):
                    pm='.'.join(parts[:i])
                    if pm in mods: es.add(pm)
    edges[m]=es
# closure from each module
def closure(start):
    seen=set();st=[start]
    while st:
        x=st.pop()
        if x in seen: continue
        seen.add(x); st.extend(edges.get(x,()))
    return seen
bad=[m for m in mods if m!='dask_array._xarray' and 'dask_array._xarray' in closure(m)]
print('modules reaching _xarray at import time:', bad)
print('who imports _xarray anywhere (deferred incl.):')
for m,p in mods.items():
    src=open(p).read()
    if '_xarray' in src and m!='dask_array._xarray': print('  ',m)
print(len(mods),'modules')

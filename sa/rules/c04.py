"""C04 - output keys are pinned to the raw name; graph references are closed by construction."""

from __future__ import annotations

import ast

from ..dataflow import Defs, roots
from ..model import FuncInfo, body_walk, const_value, dotted, full_walk, idents_in, norm, unparse
from ..report import RuleResult
from .common import callgraph, cfg_index, cfg_of, need, site

PROP = "C04"

EXPLANATION = (
    "Decides the structural clauses of C04: (keys) R04.3 Array.__dask_keys__ is the grid (self._name, *block index) over "
    "self.numblocks and R04.6 the collection name is the raw expression's _name; (name never changes because of "
    "optimization) R04.2 no call-graph path from the name/key accessors reaches simplify/lower/fuse/materialize; (graph "
    "defines the advertised keys) R04.1 RootAlias - the node that maps the raw-name keys onto the optimized root - is "
    "constructed only in _materialize, with the raw name, behind the embedded-root collision guard, and __dask_graph__ is "
    "built from that materialized expression; (closedness) R04.4 every key reference emitted by a _layer/_task names a "
    "node derived from self's operands (the transitive dependency closure) on the same guard as dependencies() exposes "
    "it; (no missing layer) R04.5 every expression class resolves a concrete _layer, a lowering, or a lower_once; R04.9 no _layer hands back "
    "another node's layer; R04.10 the nested key grid of an expression is defined once (ArrayExpr.__dask_keys__ from _cached_keys) and not "
    "overridden by any expression class except the reviewed single-key finalizer; R04.11 a hand-merged sub-collection graph and the keys referenced come from the same binding of the collection. "
    "Acyclicity and the key arithmetic inside individual _layer bodies are not decided."
)
ASSUMPTIONS = [
    "dask's Expr.__dask_graph__ unions the _layer() of every node reachable through dependencies() (read from the installed dask source)",
    "by-name fallback of the call graph over-approximates dynamic dispatch",
]
TRUSTED = ["CPython ast", "sa.callgraph reachability", "sa.cfg guard chains", "sa.dataflow def-use"]

LOWERING = {"lower_once", "lower_completely", "simplify", "optimize", "fuse", "_materialize", "_lower", "_lowered_expr", "_simplify_down", "_simplify_up", "optimize_blockwise_fusion_array", "_pinned"}


def r04_1(ctx):
    rr = RuleResult("R04.1", "WHO", "RootAlias is constructed only in _materialize._materialize, with the raw name, behind the embedded-root guard", min_instances=1)
    repo = ctx.repo
    cg = callgraph(ctx)
    ra = repo.mod("dask_array._expr").cls("RootAlias")
    sites = cg.constructions.get(ra.fq, [])
    need(sites, "no construction site of RootAlias found")
    for f, m, call in sites:
        where = f.fq if f else f"{m.name}:<module>"
        c = f"{m.relpath}::{f.qualname if f else '<module>'}::{norm(call)}"
        rr.inst(c, where=where)
        if where != "dask_array._materialize:_materialize":
            ctx.finding(rr, c, "RootAlias constructed outside _materialize (a pinned-name node fed back through optimization or built over an unmaterialized tree)", file=m.path, line=call.lineno)
            continue
        cfg = cfg_of(ctx, f)
        stmt = cfg_index(ctx, f).get(id(call))
        need(stmt is not None, "RootAlias construction statement not found in the CFG")
        guards = cfg.guards(stmt)
        ok = any(pol is False and {"_name", "walk"} <= idents_in(t) for t, pol in guards)
        if not ok:
            ctx.finding(rr, c, "the pin is no longer dominated by the embedded-root guard (raise when a node of the rewrite carries the raw root name)", func=f, node=stmt)
    # the guard must really leave: its body raises
    return rr


def r04_2(ctx):
    rr = RuleResult("R04.2", "NOREACH", "name/key accessors of Array never reach simplify/lower/fuse/materialize", min_instances=6)
    repo = ctx.repo
    cg = callgraph(ctx)
    arr = repo.mod("dask_array._collection").cls("Array")
    for meth in ("_name", "name", "_cached_dask_keys", "__dask_keys__", "__dask_tokenize__", "__dask_postpersist__", "__frisky_output_keys__"):
        f = arr.methods.get(meth)
        need(f is not None, f"Array.{meth}")
        rr.inst(site(f))
        path, _ = cg.reach([f.fq], lambda t: t.name in LOWERING, kinds=("call", "prop", "construct"), exact_only=True)
        if path:
            ctx.finding(rr, site(f), f"Array.{meth} can reach {path[-1]}: the collection's name/keys would be derived by lowering", func=f, path=[" -> ".join(path)])
        # direct textual use of a lowering entry point, whatever the receiver
        for n in body_walk(f.node):
            if isinstance(n, ast.Attribute) and n.attr in LOWERING and isinstance(n.ctx, ast.Load):
                ctx.finding(rr, site(f, n), f"Array.{meth} reads .{n.attr}", func=f, node=n)
    return rr


def r04_3(ctx):
    rr = RuleResult("R04.3", "COVER", "__dask_keys__ = grid of (self._name, *i) over self.numblocks; __dask_graph__ comes from the materialized expression", min_instances=3)
    arr = ctx.repo.mod("dask_array._collection").cls("Array")
    ck = arr.methods.get("_cached_dask_keys")
    need(ck is not None, "Array._cached_dask_keys")
    defs = Defs(ck.node)
    src = {k: {unparse(v) for v in vs} for k, vs in defs.defs.items()}
    name_ok = src.get("name") and all("self._name" in v for v in src["name"])
    nb_ok = src.get("numblocks") and all("self.numblocks" in v for v in src["numblocks"])
    rr.inst(site(ck), name_from=sorted(src.get("name", [])), numblocks_from=sorted(src.get("numblocks", [])))
    if not name_ok:
        ctx.finding(rr, site(ck), "keys are not built from self._name", func=ck)
    if not nb_ok:
        ctx.finding(rr, site(ck), "the key grid is not ranged over self.numblocks", func=ck)
    inner_adds = set()
    for n in full_walk(ck.node):
        if isinstance(n, ast.BinOp) and isinstance(n.op, ast.Add):
            for side in (n.left, n.right):
                if isinstance(side, ast.BinOp) and isinstance(side.op, ast.Add):
                    inner_adds.add(id(side))
    chain_members = set()
    for n in full_walk(ck.node):
        if isinstance(n, ast.BinOp) and isinstance(n.op, ast.Add) and id(n) not in inner_adds:
            # maximal ``a + b + c`` chain building a key: its leftmost operand must be (name,)
            left = n
            operands = []
            while isinstance(left, ast.BinOp) and isinstance(left.op, ast.Add):
                operands.append(left.right)
                left = left.left
            operands.append(left)
            if not any(isinstance(o, ast.Tuple) for o in operands):
                continue  # integer arithmetic, not a key
            left = n
            while isinstance(left, ast.BinOp) and isinstance(left.op, ast.Add):
                for sub in ast.walk(left.right):
                    chain_members.add(id(sub))
                left = left.left
            for sub in ast.walk(left):
                chain_members.add(id(sub))
            if unparse(left) not in ("(name,)", "args"):
                ctx.finding(rr, site(ck, n), f"key {unparse(n)} does not start with the collection name", func=ck, node=n)
    for n in full_walk(ck.node):
        if isinstance(n, ast.Tuple) and isinstance(n.ctx, ast.Load) and len(n.elts) == 1 and id(n) not in chain_members:
            if unparse(n) != "(name,)":
                ctx.finding(rr, site(ck, n), f"key tuple {unparse(n)} is not (name,)", func=ck, node=n)
    for n in full_walk(ck.node):
        if isinstance(n, ast.Call) and dotted(n.func) == "range":
            if not any("numblocks" in unparse(a) for a in n.args):
                ctx.finding(rr, site(ck, n), "block index range not taken from numblocks", func=ck, node=n)
    dk = arr.methods.get("__dask_keys__")
    need(dk is not None, "Array.__dask_keys__")
    rets = [unparse(n.value) for n in body_walk(dk.node) if isinstance(n, ast.Return)]
    rr.inst(site(dk), returns=rets)
    if rets != ["self._cached_dask_keys"]:
        ctx.finding(rr, site(dk), f"__dask_keys__ returns {rets}", func=dk)
    dg = arr.methods.get("__dask_graph__")
    need(dg is not None, "Array.__dask_graph__")
    txt = " ".join(unparse(s) for s in dg.node.body)
    rr.inst(site(dg), body=txt[:200])
    d2 = Defs(dg.node)
    for n in body_walk(dg.node):
        if isinstance(n, ast.Return):
            ok = isinstance(n.value, ast.Call) and unparse(n.value.func).endswith("__dask_graph__") and n.value.args
            if ok:
                a = n.value.args[0]
                vals = {unparse(v) for v in d2.defs.get(a.id, [])} if isinstance(a, ast.Name) else {unparse(a)}
                ok = vals == {"self._lowered_expr"}
            if not ok:
                ctx.finding(rr, site(dg, n), "__dask_graph__ is not Expr.__dask_graph__(self._lowered_expr): the graph may not define the advertised keys", func=dg, node=n)
    return rr


def r04_4(ctx):
    rr = RuleResult(
        "R04.4", "COVER",
        "key references emitted by _layer/_task name nodes derived from self's operands; Elemwise references `out` exactly when dependencies() keeps it; FusedBlockwise.dependencies = inner dependencies minus fused names",
        min_instances=60,
    )
    repo = ctx.repo
    for c in repo.expr_classes():
        for mname in ("_layer", "_task"):
            f = c.methods.get(mname)
            if not f:
                continue
            defs = Defs(f.node)
            for n in full_walk(f.node):
                if not (isinstance(n, ast.Attribute) and n.attr in ("_name", "name") and isinstance(n.ctx, ast.Load)):
                    continue
                base = n.value
                if unparse(base) == "self":
                    continue
                cst = f"{f.construct}::{unparse(n)}"
                rs = roots(base, defs, safe_attrs=frozenset(), safe_calls=frozenset({"len", "range", "enumerate"}))
                free = {x.id for x in ast.walk(base) if isinstance(x, ast.Name)} - {"self"} - set(defs.defs) - set(defs.params)
                rr.inst(cst, derived_from_params=sorted(rs))
                bad = (rs - {"self"}) | free
                if bad:
                    ctx.finding(rr, cst, f"a key names a node that is not derived from self's operands (comes from {sorted(bad)}): the graph may reference a key no dependency defines", func=f, node=n)
    # Elemwise: `out` is dropped from dependencies() iff where is True; _task may reference it only otherwise
    ew = repo.mod("dask_array._blockwise").cls("Elemwise")
    t = ew.methods.get("_task")
    dep = ew.methods.get("dependencies")
    need(t is not None and dep is not None, "Elemwise._task / Elemwise.dependencies")
    cfg = cfg_of(ctx, t)
    for s in cfg.stmts():
        hdr = s if not isinstance(s, (ast.If, ast.For, ast.While, ast.Try, ast.With)) else getattr(s, "test", None) or getattr(s, "iter", None)
        if hdr is None:
            continue
        for n in ast.walk(hdr):
            if isinstance(n, ast.Attribute) and unparse(n) in ("self.out.name", "self.out._name") or (isinstance(n, ast.Call) and "self.out" in [unparse(a) for a in n.args] and "TaskRef" in unparse(s)):
                g = cfg.guards(s)
                ok = any(unparse(tst) == "self.where is not True" and pol for tst, pol in g) or any(unparse(tst) == "self.where is True" and pol is False for tst, pol in g)
                rr.inst(site(t, s), guards=[(unparse(a), b) for a, b in g])
                if not ok:
                    ctx.finding(rr, site(t, s), "Elemwise._task references self.out outside `self.where is not True`, but dependencies() drops `out` whenever where is True", func=t, node=s)
    dcfg = cfg_of(ctx, dep)
    for s in dcfg.stmts():
        if isinstance(s, ast.Assign) and "deps" in {x.id for x in ast.walk(s.targets[0]) if isinstance(x, ast.Name)} and "out_name" in unparse(s.value):
            g = dcfg.guards(s)
            ok = any("self.where is True" in unparse(tst) and pol for tst, pol in g)
            rr.inst(site(dep, s), guards=[(unparse(a), b) for a, b in g])
            if not ok:
                ctx.finding(rr, site(dep, s), "Elemwise.dependencies drops `out` without the `self.where is True` guard (its key is referenced by _task when where is an array)", func=dep, node=s)
    # FusedBlockwise
    fb = repo.mod("dask_array._blockwise").cls("FusedBlockwise")
    fd = fb.methods.get("dependencies")
    need(fd is not None, "FusedBlockwise.dependencies")
    txt = unparse(fd.node)
    ok = "self.exprs" in txt and ".dependencies()" in txt and "not in fused_names" in txt
    rr.inst(site(fd), shape_ok=ok)
    if not ok:
        ctx.finding(rr, site(fd), "FusedBlockwise.dependencies is no longer the inner expressions' dependencies() minus the fused names", func=fd)
    return rr


def r04_5(ctx):
    rr = RuleResult("R04.5", "COVER", "every expression class resolves a concrete _layer, a _lower with a non-None return, or its own lower_once", min_instances=100)
    repo = ctx.repo
    base = repo.mod("dask_array._expr").cls("ArrayExpr")
    for c in repo.expr_classes():
        if c is base:
            continue
        how = None
        hit = repo.class_attr(c, "_layer")
        if hit and isinstance(hit[1], FuncInfo) and hit[0] is not base and hit[0].module.is_unit:
            how = f"_layer from {hit[0].name}"
        if how is None:
            hit = repo.class_attr(c, "_lower")
            if hit and isinstance(hit[1], FuncInfo) and hit[0].module.is_unit:
                rets = [n for n in body_walk(hit[1].node) if isinstance(n, ast.Return) and n.value is not None and not (isinstance(n.value, ast.Constant) and n.value.value is None)]
                if rets:
                    how = f"_lower from {hit[0].name}"
        if how is None:
            hit = repo.class_attr(c, "lower_once")
            if hit and isinstance(hit[1], FuncInfo) and hit[0].module.is_unit:
                how = f"lower_once from {hit[0].name}"
        abstract = not repo.class_attr(c, "_parameters") or c.name in ("Slice", "IO")
        rr.inst(c.construct, how=how)
        if how is None:
            # abstract intermediate bases (never instantiated) are recognised by having subclasses and no construction site
            cg = callgraph(ctx)
            if repo.subclasses(c, strict=True) and len(repo.subclasses(c)) > 1 and not cg.constructions.get(c.fq):
                rr.exempt(c.construct, "abstract intermediate base: has subclasses and no construction site in the package")
                continue
            ctx.finding(rr, c.construct, "expression class can neither produce a layer nor lower itself: materialization raises or recurses", file=c.module.path, line=c.node.lineno)
    return rr


def r04_6(ctx):
    rr = RuleResult("R04.6", "WHO", "Array._name returns self.expr._name; Array.name returns self._name", min_instances=2)
    arr = ctx.repo.mod("dask_array._collection").cls("Array")
    for meth, want in (("_name", {"self.expr._name", "self._expr._name"}), ("name", {"self._name"})):
        f = arr.methods.get(meth)
        need(f is not None, f"Array.{meth}")
        rets = [n for n in body_walk(f.node) if isinstance(n, ast.Return)]
        rr.inst(site(f), returns=[unparse(r.value) for r in rets])
        for r in rets:
            if unparse(r.value) not in want:
                ctx.finding(rr, site(f, r), f"Array.{meth} returns {unparse(r.value)}: the collection's name is no longer the raw expression's name", func=f, node=r)
    return rr


def r04_7(ctx):
    """Every way out of _materialize hands back either the pin, an existing pin, or an expression
    that still carries the raw root name."""
    rr = RuleResult("R04.7", "PASS", "_materialize returns the RootAlias pin, an incoming RootAlias, or the expression under `expr._name == name` - on every path, whatever optimize_graph is", min_instances=2)
    f = ctx.repo.mod("dask_array._materialize").func("_materialize")
    cfg = cfg_of(ctx, f)
    param = f.params[0]
    rebinds = [s for s in cfg.stmts() if isinstance(s, ast.Assign) and any(isinstance(t, ast.Name) and t.id == param for t in s.targets)]
    pins = [s for s in rebinds if any(isinstance(c, ast.Call) and dotted(c.func) == "RootAlias" for c in ast.walk(s.value))]
    lowerings = [s for s in rebinds if s not in pins]
    need(lowerings, "_materialize no longer rebinds the expression through lowering")

    def name_unchanged(a, lbl, b):
        # the False edge of `if expr._name != name` / True edge of `if expr._name == name`
        if isinstance(a, ast.If) and isinstance(a.test, ast.Compare) and len(a.test.ops) == 1:
            sides = {unparse(a.test.left), unparse(a.test.comparators[0])}
            if f"{param}._name" in sides and len(sides) == 2:
                if isinstance(a.test.ops[0], ast.NotEq):
                    return lbl is False
                if isinstance(a.test.ops[0], ast.Eq):
                    return lbl is True
        return False

    for r in cfg.returns:
        c = site(f, r)
        v = unparse(r.value) if r.value is not None else "None"
        rr.inst(c, returns=v)
        if v != param:
            if not (isinstance(r.value, ast.Call) and dotted(r.value.func) == "RootAlias"):
                ctx.finding(rr, c, f"_materialize returns {v}", func=f, node=r)
            continue
        # a rewritten expression may only be returned through the pin or under an unchanged name
        for lw in lowerings:
            p = cfg.path_avoiding(r, blocked=lambda n: n in pins, blocked_edge=name_unchanged, start=lw)
            if p is not None:
                ctx.finding(rr, c, "a path returns the rewritten expression without pinning its output keys to the raw root name and without having seen that the name is unchanged: the graph would not define the advertised keys",
                            func=f, node=r, path=[f"line {getattr(x, 'lineno', 0)}: {norm(x)}" for x in p if isinstance(x, ast.AST)][:8])
                break
    return rr


def r04_8(ctx):
    """The keys cache is dropped whenever the expression is swapped (shared with C11 R11.2)."""
    from .c11 import r11_2

    rr = r11_2(ctx)
    rr.rule = "R04.8"
    for fd in rr.findings:
        fd.rule, fd.prop = "R04.8", PROP
    return rr


_DELEGATING_LAYER_EXAMPLE = "class K:\n    def _layer(self):\n        return self.lower_completely()._layer()\n"


def _delegated_layers(fnode):
    """Calls ``<something>._layer()`` inside a _layer body whose receiver is not ``super()``."""
    out = []
    for n in ast.walk(fnode):
        if isinstance(n, ast.Call) and isinstance(n.func, ast.Attribute) and n.func.attr == "_layer":
            recv = n.func.value
            if isinstance(recv, ast.Call) and isinstance(recv.func, ast.Name) and recv.func.id == "super":
                continue
            out.append(n)
    return out


def r04_9(ctx):
    rr = RuleResult(
        "R04.9", "COVER",
        "no expression class's _layer hands back the layer of ANOTHER node (e.g. self.lower_completely()._layer()): that layer defines the other node's keys and refers to the other node's dependencies, so a traversal of the raw tree (dask.optimize, dask.persist, any Expr.__dask_graph__ walk) gets a graph that neither defines this node's keys nor is closed",
        min_instances=1,
    )
    probe = ast.parse(_DELEGATING_LAYER_EXAMPLE).body[0].body[0]
    hits = _delegated_layers(probe)
    rr.inst("positive-example", matched=len(hits))
    if len(hits) != 1:
        from ..model import AnalysisError

        raise AnalysisError("R04.9 matcher no longer recognises its own positive example")
    n = 0
    for c in ctx.repo.expr_classes():
        f = c.methods.get("_layer")
        if f is None or not c.module.is_unit:
            continue
        n += 1
        for call in _delegated_layers(f.node):
            cst = f"{c.construct}::_layer::{unparse(call)[:60]}"
            rr.inst(cst, delegated_to=unparse(call.func.value)[:60])
            ctx.finding(rr, cst, f"{c.name}._layer returns {unparse(call)[:60]}: the layer of another node. Walked as part of the raw tree (dask.optimize(x), dask.persist(x), is_dask_collection) the graph then lacks this node's own keys and the other node's inputs - dask.optimize(x.sum(axis=0))[0].compute() summed key strings instead of blocks", func=f, node=call)
    rr.notes.append(f"{n} _layer implementations scanned")
    need(n >= 40, "_layer implementations of expression classes")
    return rr


KEY_GRID_OVERRIDES_REVIEWED = {
    "FinalizeComputeArray": "not a block grid: the finalizer is one task under the single key self._name (its _layer defines exactly that key); dask's FinalizeCompute protocol asks for [name]",
}

_FLAT_KEYS_EXAMPLE = """
class Flat(ArrayExpr):
    def __dask_keys__(self):
        return [(self._name,) + idx for idx in np.ndindex(self.numblocks)]
"""


def r04_10(ctx):
    rr = RuleResult(
        "R04.10", "WHO",
        "the nested key grid (name, *block_index) over numblocks is defined once, in ArrayExpr.__dask_keys__ (from _cached_keys); no expression class "
        "overrides it (the finalizer's single key is the one reviewed exception): consumers - finalize/concatenate3, ConcatenateArrayChunks, dask's own "
        "collection protocol - assemble results by the NESTING of that list, so an override of another shape (a flat list) mis-assembles every multi-block result",
        min_instances=2,
    )
    def override_of(class_node):
        for b in class_node.body:
            if isinstance(b, (ast.FunctionDef, ast.AsyncFunctionDef)) and b.name == "__dask_keys__":
                return b
            if isinstance(b, ast.Assign) and any(isinstance(t, ast.Name) and t.id == "__dask_keys__" for t in b.targets):
                return b
        return None

    if override_of(ast.parse(_FLAT_KEYS_EXAMPLE).body[0]) is None:
        from ..model import AnalysisError

        raise AnalysisError("R04.10 matcher no longer recognises its own positive example")
    rr.inst("positive-example", matched=1)
    repo = ctx.repo
    base = repo.mod("dask_array._expr").cls("ArrayExpr")
    bf = base.methods.get("__dask_keys__")
    need(bf is not None, "ArrayExpr.__dask_keys__")
    uses_cached = any(isinstance(n, ast.Attribute) and n.attr == "_cached_keys" for n in body_walk(bf.node))
    rr.inst(site(bf), from_cached_keys=uses_cached)
    if not uses_cached:
        ctx.finding(rr, site(bf), "ArrayExpr.__dask_keys__ no longer unwraps self._cached_keys (the nested grid over numblocks)", func=bf)
    n = 0
    for c in repo.expr_classes():
        if not c.module.is_unit or c.fq == base.fq:
            continue
        n += 1
        ov = override_of(c.node)
        if ov is None:
            continue
        f = c.methods.get("__dask_keys__")
        cst = f"{c.construct}::__dask_keys__"
        rr.inst(cst, returns=[unparse(r.value)[:70] for r in ast.walk(ov) if isinstance(r, ast.Return) and r.value is not None])
        if c.name in KEY_GRID_OVERRIDES_REVIEWED:
            rr.exempt(cst, KEY_GRID_OVERRIDES_REVIEWED[c.name])
            continue
        ctx.finding(
            rr, cst,
            f"{c.name} overrides __dask_keys__: the list it returns replaces the nested (name, *block_index) grid that finalize/concatenate3 and dask's collection protocol "
            f"assemble results by. VIndexArray returned a FLAT list: x.vindex[[0, 3, 1], [5, 0, 2]] on a 3-d x whose remaining axis has more than one chunk raised "
            f"'could not broadcast input array from shape (2,2) into shape (2,)' in finalize (legacy dask.array computes it)",
            func=f, file=c.module.path, line=ov.lineno,
        )
    rr.notes.append(f"{n} expression classes scanned")
    need(n >= 100, "expression classes")
    return rr


_MERGE_EXAMPLE = """
def build(dsk, items):
    for idx in items:
        dsk.update(dict(idx.__dask_graph__()))
        idx = gather(idx)
        dsk[1] = TaskRef(next(flatten(idx.__dask_keys__())))
"""


def _merge_version_mismatches(func_node):
    """In a function that merges sub-collections' graphs by hand (``X.__dask_graph__()`` on a local X): every
    ``X.__dask_keys__()`` must read the SAME binding of X as some ``X.__dask_graph__()`` - keys taken from one version of
    the collection and the graph from another leave the referenced keys undefined.  Returns (checked, [(call, name)])."""
    from ..cfg import CFG, stmt_of
    from .common import nearest_def

    graph_calls, key_calls = {}, []
    for n in ast.walk(func_node):
        if isinstance(n, ast.Call) and isinstance(n.func, ast.Attribute) and isinstance(n.func.value, ast.Name) and n.func.value.id not in ("self", "cls"):
            if n.func.attr == "__dask_graph__":
                graph_calls.setdefault(n.func.value.id, []).append(n)
            elif n.func.attr == "__dask_keys__":
                key_calls.append(n)
    if not graph_calls:
        return 0, []
    cfg = CFG(func_node)
    bad, checked = [], 0
    for k in key_calls:
        name = k.func.value.id
        if name not in graph_calls:
            continue  # keys of something whose graph arrives another way (a dependency): R04.4's business
        checked += 1
        ks = stmt_of(cfg, k)
        kd = nearest_def(cfg, ks, name) if ks is not None else None
        versions = []
        for g in graph_calls[name]:
            gs = stmt_of(cfg, g)
            versions.append(nearest_def(cfg, gs, name) if gs is not None else None)
        if not any(v is kd for v in versions):
            bad.append((k, name))
    return checked, bad


def r04_11(ctx):
    rr = RuleResult(
        "R04.11", "COVER",
        "a function that merges sub-collections' graphs into a hand-built graph (dsk.update(dict(X.__dask_graph__()))) takes X.__dask_keys__() from the same binding of X "
        "whose graph it merged: keys of the gathered/rewritten collection with the graph of the original leave the task's references undefined",
        min_instances=2,
    )
    probe = ast.parse(_MERGE_EXAMPLE).body[0]
    checked, bad = _merge_version_mismatches(probe)
    rr.inst("positive-example", checked=checked, matched=len(bad))
    if checked != 1 or len(bad) != 1:
        from ..model import AnalysisError

        raise AnalysisError("R04.11 matcher no longer recognises its own positive example")
    total = 0
    for f in ctx.repo.all_functions():
        if "/tests/" in f.module.relpath or f.parent is not None:
            continue
        checked, bad = _merge_version_mismatches(f.node)
        if not checked:
            continue
        total += checked
        rr.inst(site(f), keys_reads_checked=checked)
        for k, name in bad:
            ctx.finding(
                rr, f"{f.construct}::{name}.__dask_keys__()",
                f"{f.qualname} references keys of {name} as bound at this point, but the graph it merged is that of another binding of {name} (the collection was rebound in between, "
                f"e.g. gathered into one block after its graph had been merged): the keys the task refers to are never defined - x[dask_index] = v with a multi-block index raised 'Missing dependency'",
                func=f, node=k,
            )
    need(total >= 2, "hand-merged sub-collection graphs (setitem_array_expr)")
    return rr


# classes whose layer reads the blocks of several operands but which are put on one grid before the layer runs
PAIRING_ALIGNED_AT_LOWERING = {
    "Elemwise": "Elemwise._lower unifies the inputs together with where/out (unify_chunks_expr) before _layer pairs their blocks; the raw walk is guarded by R05.9",
}


def _block_source_operands(repo, c):
    """Parameters P of ``c`` such that ``self.P`` flows into a TaskRef(...) key of the class's OWN _layer/_task -
    directly (``TaskRef((self.P._name, i))``) or through local names (``keys = list(_flatten_keys(self.P))``,
    ``for i, (k, w) in enumerate(zip(keys, wkeys))``)."""
    from ..dataflow import Defs
    from ..namedeps import params_of

    try:
        params = set(params_of(repo, c))
    except Exception:  # noqa: BLE001
        return set()
    # array operands: parameters the class treats as arrays (self.P._name / .chunks / .numblocks / ..., _flatten_keys(self.P))
    arrays = set()
    for g in c.methods.values():
        for m in full_walk(g.node):
            if isinstance(m, ast.Attribute) and m.attr in ("_name", "name", "chunks", "numblocks", "__dask_keys__", "_meta", "ndim", "shape", "npartitions") and isinstance(m.value, ast.Attribute) and isinstance(m.value.value, ast.Name) and m.value.value.id == "self" and m.value.attr in params:
                arrays.add(m.value.attr)
            elif isinstance(m, ast.Call) and (dotted(m.func) or "").endswith("_flatten_keys") and m.args and isinstance(m.args[0], ast.Attribute) and isinstance(m.args[0].value, ast.Name) and m.args[0].value.id == "self" and m.args[0].attr in params:
                arrays.add(m.args[0].attr)
    params = params & arrays
    found = set()
    for mname in ("_layer", "_task"):
        f = c.methods.get(mname)
        if f is None:
            continue
        defs = Defs(f.node)
        # loop / comprehension targets derive from their iterables
        iters = {}
        for n in ast.walk(f.node):
            if isinstance(n, (ast.For, ast.comprehension)):
                for t in ast.walk(n.target):
                    if isinstance(t, ast.Name):
                        iters.setdefault(t.id, []).append(n.iter)
        seen, work = set(), []
        for n in full_walk(f.node):
            if isinstance(n, ast.Call) and (dotted(n.func) or "").rsplit(".", 1)[-1] == "TaskRef" and n.args:
                work.append(n.args[0])
            elif isinstance(n, ast.Call) and (dotted(n.func) or "").rsplit(".", 1)[-1] == "Alias" and len(n.args) == 2:
                work.append(n.args[1])  # Alias(out_key, in_key): the block read
        while work:
            e = work.pop()
            for m in ast.walk(e):
                if isinstance(m, ast.Attribute) and isinstance(m.value, ast.Name) and m.value.id == "self" and m.attr in params:
                    found.add(m.attr)
                elif isinstance(m, ast.Name) and m.id not in seen and m.id != "self":
                    seen.add(m.id)
                    work.extend(v for v in defs.defs.get(m.id, []) if v is not None)
                    work.extend(iters.get(m.id, []))
    return found


def _lowers_to_positional_pairing(repo, c):
    """Text of the starred argument when the class's own ``_lower`` calls ``map_blocks(func, *<several inputs>)``."""
    f = c.methods.get("_lower")
    if f is None:
        return None
    for n in body_walk(f.node):
        if isinstance(n, ast.Call) and isinstance(n.func, (ast.Name, ast.Attribute)):
            r = repo.resolve_expr(n.func, f.module, f)
            if r and r[0] == "func" and r[1].construct == "dask_array/_map_blocks.py::map_blocks":
                for a in n.args[1:]:
                    if isinstance(a, ast.Starred):
                        return unparse(a.value)[:50]
    return None


GRID_LITERAL_REVIEWED = {
    "Rechunk": "the literal is the node's own target layout; its layer is planned from the input's current chunks",
    "TasksRechunk": "as Rechunk: planned from the input's current chunks to the literal target",
}


def _advertised_grid_literal(repo, c):
    """Name of a layout-literal parameter that the class's own ``chunks`` property hands out verbatim (``return
    self._chunks``): the node advertises - and its layer enumerates - a grid that is an operand VALUE, while the blocks
    it reads belong to an array operand whose grid a rewrite may change."""
    from ..namedeps import params_of

    try:
        params = list(params_of(repo, c))
    except Exception:  # noqa: BLE001
        return None
    f = c.methods.get("chunks")
    if f is None or "_layer" not in c.methods:
        return None
    rets = [r.value for r in body_walk(f.node) if isinstance(r, ast.Return) and r.value is not None]
    if len(rets) != 1:
        return None
    t = unparse(rets[0])
    for p_ in params:
        if "chunks" in p_ and t in (f"self.{p_}", f"self.operand('{p_}')", f'self.operand("{p_}")'):
            return p_
    return None


def r04_12(ctx):
    rr = RuleResult(
        "R04.12", "COVER",
        "a node whose own layer reads the blocks of SEVERAL operands (pairs them by position: x with its weights, a histogram with its bins) declares that it observes its inputs' "
        "block grid (_requires_grid_preservation), unless its operands are unified at lowering: otherwise a rewrite below may move ONE operand to another grid "
        "(the sliding-window fusion, a pushed rechunk) and the layer refers to blocks that do not exist",
        min_instances=3,
    )
    repo = ctx.repo
    n = 0
    for c in repo.expr_classes():
        if not c.module.is_unit:
            continue
        n += 1
        ops = _block_source_operands(repo, c)
        literal = _advertised_grid_literal(repo, c) if len(ops) == 1 else None
        via_map_blocks = _lowers_to_positional_pairing(repo, c)
        if via_map_blocks:
            # the node lowers to map_blocks(func, *several inputs): map_blocks pairs blocks by position (align_arrays=False)
            cst = f"{c.construct}::lowers to map_blocks over {via_map_blocks}"
            hit = repo.class_attr(c, "_requires_grid_preservation")
            own = hit is not None and hit[0].fq == c.fq and isinstance(hit[1], FuncInfo)
            rets = [unparse(r.value) for r in body_walk(hit[1].node) if isinstance(r, ast.Return) and r.value is not None] if own else []
            rr.inst(cst, declared=own, returns=rets)
            if not own or all(t == "False" for t in rets):
                ctx.finding(
                    rr, cst,
                    f"{c.name}._lower hands several inputs to map_blocks, which pairs their blocks by position, but the class does not declare _requires_grid_preservation: "
                    f"da.map_overlap(f, s, w, depth=1, boundary='periodic') with s a sliding-window reduction raised 'operands could not be broadcast together with shapes (10,) (15,)' - s had been moved to its native grid, w had not",
                    file=c.module.path, line=c.node.lineno,
                )
            continue
        if len(ops) < 2 and not literal:
            continue
        if literal:
            ops = ops | {literal}
        cst = f"{c.construct}::block sources {', '.join(sorted(ops))}"
        hit = repo.class_attr(c, "_requires_grid_preservation")
        declared = None
        if hit is not None and isinstance(hit[1], FuncInfo):
            rets = [unparse(r.value) for r in body_walk(hit[1].node) if isinstance(r, ast.Return) and r.value is not None]
            declared = (hit[0].name, rets)
        rr.inst(cst, declared_by=declared[0] if declared else None, returns=declared[1] if declared else None)
        if declared and declared[1] == ["True"]:
            continue
        if c.name in PAIRING_ALIGNED_AT_LOWERING:
            rr.exempt(cst, PAIRING_ALIGNED_AT_LOWERING[c.name])
            continue
        if literal and c.name in GRID_LITERAL_REVIEWED:
            rr.exempt(cst, GRID_LITERAL_REVIEWED[c.name])
            continue
        ctx.finding(
            rr, cst,
            f"{c.name}._layer pairs the blocks of {', '.join(sorted(ops))} by position but the class does not declare _requires_grid_preservation: with s a sliding-window reduction "
            f"(advertised chunks (16, 13), native (8, 8, 8, 5)), da.bincount(s, weights=w) / da.histogram(s, weights=w) raised 'Missing dependency' - the fusion moved s to its native grid under the node, the weights stayed",
            file=c.module.path, line=c.node.lineno,
        )
    need(n >= 100, "expression classes")
    return rr


RULES = [r04_1, r04_2, r04_3, r04_4, r04_5, r04_6, r04_7, r04_8, r04_9, r04_10, r04_11, r04_12]

from .upstream import upstream_facts  # noqa: E402

RULES_THOROUGH = RULES + [upstream_facts]

LEVEL_TEXT = (
    "Static decision of the key-pin discipline behind C04: who-may-construct RootAlias and under which dominating guard, "
    "call-graph non-reachability of any lowering from the name/key accessors (so optimization cannot change the name), "
    "dataflow check that the advertised keys are (raw name, block index over numblocks) and that the graph is drawn from "
    "the materialized expression, a def-use rule that every key emitted by the 30+ _layer/_task bodies names a node in "
    "self's dependency closure, exhaustiveness of layer/lowering over all 111 expression classes, who-may-define the nested key grid, "
    "same-binding agreement between hand-merged sub-graphs and the keys referenced, and a coverage rule that every class whose layer pairs "
    "the blocks of several operands (or enumerates a chunks literal) declares grid sensitivity. Acyclicity and per-layer key arithmetic "
    "are not decided."
)
LEVEL_NOTE = (
    "Trusted: CPython ast, engine call graph (exact edges for the NOREACH rule plus a textual scan for lowering entry "
    "points), CFG guard chains. Assumes dask's Expr.__dask_graph__ merges the layers of all transitive dependencies."
)
TECHNIQUE = "static analysis: who-may-construct + call-graph non-reachability + def-use of key tuples + class-hierarchy exhaustiveness (ast)"

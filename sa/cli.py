"""Command line: ``python -m sa.cli <property id> [--tier quick|thorough]``.

Exit 0: every obligation discharged (known findings are printed, not counted).
Exit 1: at least one new violation (``VIOLATION property=<id> replay=<path>``).
Exit 2: ANALYSIS-ERROR (vanished anchor, unparsable file, checker crash).
"""

from __future__ import annotations

import argparse
import importlib
import json
import os
import sys
import time
import traceback

from .model import AnalysisError, Repo
from .report import run_property

CLAIMED = [
    "C02", "C03", "C04", "C05", "C06", "C07", "C09", "C10", "C11", "C12",
    "C16", "C17", "C19", "C20", "C21", "C22", "C23", "C24", "C25", "C26", "C27", "C28", "C29",
]  # fmt: skip


def available():
    out = []
    for p in CLAIMED:
        try:
            importlib.import_module(f"sa.rules.{p.lower()}")
            out.append(p)
        except ModuleNotFoundError:
            pass
    return out


def run(prop, tier, seed, root=None, quiet=False):
    t0 = time.time()
    mod = importlib.import_module(f"sa.rules.{prop.lower()}")
    repo = Repo(root)
    extra = {}
    status = run_property(
        prop,
        mod.RULES if tier == "quick" else getattr(mod, "RULES_THOROUGH", mod.RULES),
        repo,
        tier,
        seed,
        mod.EXPLANATION,
        mod.ASSUMPTIONS,
        mod.TRUSTED,
        extra=extra,
        t0=t0,
    )
    return status


def main(argv=None):
    ap = argparse.ArgumentParser()
    ap.add_argument("prop")
    ap.add_argument("--tier", default=os.environ.get("VERIF_TIER", "quick"), choices=["quick", "thorough"])
    ap.add_argument("--replay", default=None)
    ap.add_argument("--root", default=None, help="analyse this tree instead of /repo (self-test only)")
    args = ap.parse_args(argv)
    seed = int(os.environ.get("VERIF_SEED", "0") or 0)
    if args.replay:
        with open(args.replay) as fh:
            data = json.load(fh)
        for f in data.get("findings", []):
            print(f"{f['file']}:{f['line']}: {f['rule']} {f['construct']}: {f['reason']}")
        print("(re-running the check against the current tree)")
    try:
        if args.prop == "selftest":
            from .selftest import main as st_main

            return st_main(seed)
        prop = args.prop.upper()
        status = run(prop, args.tier, seed, args.root)
        if args.tier == "thorough" and status in (0, 1) and args.root is None:
            try:
                from .selftest import controls_for_property, run_for_property

                run_for_property(prop, seed)
                controls_for_property(prop)
            except ModuleNotFoundError:
                pass
        return status
    except AnalysisError as e:
        print(f"ANALYSIS-ERROR property={args.prop} {e}")
        return 2
    except Exception:  # a checker crash is never a violation
        traceback.print_exc()
        print(f"ANALYSIS-ERROR property={args.prop} checker crashed (traceback above)")
        return 2


if __name__ == "__main__":
    sys.exit(main())
